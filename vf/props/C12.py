from vf.props.common import *
from vf.props.e4cfg import *
LEVEL = 'other'
JOBS = 6      # each obligation runs a portfolio of z3 processes on big-integer polynomials: memory-bound, keep the machine below saturation
EXPLANATION = ('(1) cbmc, shift covariance: the real rational-stepping kernels (poly-fir0.h: vpoly0, u100_0) from any state: the virtual position '
               'advances by exactly M/L per output and the phase stays in [0,L): M more inputs <=> L more outputs at the same phase (C04 lemma); the real dft_stage_fn carries the decimation phase remM and the interpolation phase exactly from one overlap-save block to the next (period-M structure); '
               '(2) cbmc, gain exactly once: the real prepare_poly_fir_coefs writes table(gain m) == m * table(gain 1) for EVERY entry of every '
               'interpolation order and both table layouts (basis inputs, symbolic position/value); soxr_create hands the engines user scale x '
               'datatype full-scale ratio (power of two); (3) hybrid E4: DC gain of the whole real conversion and of each of its L output phases '
               'equals io_spec.scale (exact arithmetic on the measured prototype), for scale in {1, 0.5, 4} - constant in, same constant out, '
               'scale applied once on the DFT-stage path.')
ASSUMPTIONS = ['superposition "to within the configured precision" is a floating-point rounding bound over FFTs and FIR sums: NOT decided (DESIGN.md section 9) - partial',
               'the outermost prototype tap is read unscaled by prepare_poly_fir_coefs (cr.c:37); it is ~0 for a windowed design and is excluded (observation in DESIGN.md)']

def obligations(tier):
    obls = [kern_obl(1), kern_obl(4, fixed=1), kern_obl(1, split=1, maxin=2)]
    for core in (0, 3):
        obls += [coefs_obl(0, core), coefs_obl(1, core), coefs_obl(2, core, onehot=8), coefs_obl(3, core, onehot=1)]
    if tier == 'thorough':
        obls += [coefs_obl(o, c, mult=m, onehot=v) for o, v in ((1, 1000), (2, 8), (3, 1)) for c in (1, 2) for m in ('0.5', '4.0')]
    obls.append(create_obl(3, timeout=300))
    cfgs = [Cfg(1, 2, LQ, DP, e2e=1), Cfg(1, 2, LQ, DP, e2e=1, scale=0.5), Cfg(1, 2, LQ, DP, e2e=1, scale=4.0), Cfg(2, 1, LQ, DP, e2e=1, scale=4.0),
            Cfg(3, 2, LQ, DP, e2e=1, scale=0.5), Cfg(4, 1, LQ, DP, e2e=1), Cfg(1, 2, LQ, 0, e2e=1, scale=4.0, env=NOSIMD32),
            # the gain on the cubic stage: quick recipe, and equal rates (cubic stage forced in because the gain is not 1)
            Cfg(1, 2, 0, 0, e2e=1, scale=0.5), Cfg(3, 2, 0, DP, e2e=1, scale=4.0), Cfg(1, 1, HQ, 0, e2e=1, scale=0.5), Cfg(1, 1, LQ, DP, e2e=1, scale=4.0),
            Cfg(2, 1, 0, 0, e2e=1, scale=0.5, env=NOSIMD32)]
    if tier == 'thorough':
        cfgs += [Cfg(1, 3, MQ, DP, e2e=1, scale=0.25), Cfg(2, 3, HQ, 0, e2e=1, scale=2.0), Cfg(1, 64, LQ, DP, e2e=1, i0=300, scale=0.5), Cfg(8, 1, HQ, DP, e2e=1, scale=2.0)]
    obls += [e2e_obl(c, ('gain',), tier) for c in cfgs]
    obls += [e2e_obl(c, ('gain', 'sym'), tier) for c in align_cfgs(tier)[:3]]
    # shift covariance through the DFT stages: decimation phase remM / interpolation phase at carried exactly from block to block
    obls += [dft_obl(1, 3), dft_obl(1, 3, dbl=1), dft_obl(3, 2), dft_obl(3, 2, fdm=1)]
    if tier == 'thorough':
        obls += [dft_obl(2, 3), dft_obl(1, 5, dbl=1), dft_obl(3, 4, dbl=1, simd=1)]
    obls.append(init_qq_obl())      # real _soxr_init for the quick recipe: cubic stage inside its envelope
    return obls
