from vf.props.common import *
EXPLANATION = ('cbmc over the real _soxr_delay/_soxr_flush/_soxr_output/_soxr_input of cr.c, inductive step from any state '
               'satisfying the accounting invariant: delivered + round(delay) equals the total a flush fixes; delay >= -1 while '
               'streaming, == frames still to come (>= 0) after end-of-input, 0 when drained and before input; '
               'L1: soxr_delay forwards the engine value, 0 in the error state.')
ASSUMPTIONS = ['frames_not_yet_supplied == 0 in the identity (the general form adds a second rounded quotient: not encoded)',
               'while streaming, delivered <= N/io_ratio + 1 (C03: never more than ceil delivered; proved per kernel)',
               'io_ratio a power of two for the float-division obligations (division by other constants did not finish: stated bound)']

def obligations(tier):
    obls = []
    for r in ('2.0', '0.25') if tier == 'quick' else ('2.0', '4.0', '0.5', '0.25', '16.0', '0.0625'):
        obls.append(drv(3, nbits=16, ratio=r, solver=KISSAT))
        obls.append(drv(2, ratio=r, solver=KISSAT))
    obls += [drv(1, ns=1), drv(1, ns=0), drv(0)]
    obls.append(drv(3, nbits=12, ratio_bits=8, solver=KISSAT, timeout=1200, tiers=('thorough',)))
    for (it, ot) in [(0, 0), (5, 6)]:
        for kind in (2, 3, 8):
            obls.append(api_step(4, it, ot, kind, 2))
    for (it, ot) in [(5, 6), (0, 0)]:      # end-of-input must reach the engines (delay after end-of-input counts down from the owed total), incl. the split/split fast path
        obls.append(api_step(1, it, ot, 2, 2))
    return obls
