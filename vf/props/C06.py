from vf.props.common import *
from vf.props import C11 as _c11
EXPLANATION = ('cbmc: (1) index exactness of every (de)interleaver of data-io.c for all bit patterns: caller sample (frame j, channel c) '
               '<-> internal dest[c][j], mono and strided kernels; (2) one API call of the real soxr.c from any state over the abstract '
               'engine with ghost sequence numbers that encode the channel (8*j+c): each channel engine receives exactly its own '
               'channel\'s frames, once, in order, and the caller\'s output position (j, c) carries engine c\'s j-th frame, for the four '
               'layout combinations (interleaved/split on either side) and every datatype pair class, num_threads 0 and 1; every channel '
               'draws the same count; (3) soxr_create gives every channel its own engine object over one shared block.')
ASSUMPTIONS = ['the _OPENMP copies of the per-channel loops are analysed (obligations *_omp) in program order only: the thread-interleaving part (shared clip counter and dither seed under '
               '"omp parallel for") is NOT decided by this check - see DESIGN.md section 9 (C06)',
               'engines are isolated per channel object by construction of the abstract engine; the real kernels\' write footprint is the L3 obligations\' subject']

def obligations(tier):
    obls = []
    for dbl in (0, 1):
        for it in range(4):
            obls.append(_c11.deint(dbl, it, 2))
    layouts = [(0, 0), (0, 4), (4, 0), (4, 4), (3, 6), (6, 1), (5, 7), (2, 5)] if tier == 'quick' else [(i, o) for i in range(8) for o in range(8) if (i + o) % 3 != 1]
    for (it, ot) in layouts:
        for op in (0, 2):
            for kind in ((2,) if tier == 'quick' else (2, 3)):
                obls.append(api_step(op, it, ot, kind, 2))
    # the OpenMP build's copies of the per-channel loops (soxr_process both-split path, soxr_output_no_callback): same assertions, program-order schedule
    for (it, ot) in [(4, 4), (5, 7), (0, 0), (6, 1)] if tier == 'quick' else [(4, 4), (5, 7), (0, 0), (6, 1), (7, 4), (4, 6), (3, 5), (1, 2)]:
        for op in (0, 2):
            obls.append(api_step(op, it, ot, 2, 2, omp=1))
    obls.append(create_obl(0, 2, 2))
    for dbl in (0, 1):
        obls.append(_c11.conv(dbl, 2, 2, 17, 16, c=1))
        obls.append(_c11.conv(dbl, 3, 2, 2, 1, c=1))
        for ot in (2, 3):      # a saturating sample of ANOTHER frame/channel inside the 16-sample block must not disturb this channel
            obls.append(_c11.conv(dbl, ot, 2, 17, 0, c=1, ovf=5))
            obls.append(_c11.conv(dbl, ot, 2, 17, 15, c=0, ovf=3))
    return obls
