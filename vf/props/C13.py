from vf.props.common import *
EXPLANATION = ('cbmc over the real engine-selection code of soxr_create (soxr.c:433-468, should_use_simd32/64, cpu_has_simd*) with precision, '
               'flags, every SOXR_USE_SIMD* override (any subset set, any integer value) symbolic and the CPUID/XGETBV asm left '
               'nondeterministic (both outcomes): exactly one control block is installed; precision > 20 or SOXR_DOUBLE_PRECISION => a '
               'cr64* block, SOXR_VR => vr32, overrides win over CPU detection, (de)interleavers match the sample type; soxr_engine() '
               'returns the id function of the installed block.')
ASSUMPTIONS = ['numerical agreement between SIMD and portable kernels is not encodable (floating-point error analysis): not claimed here']

def prepare(workdir):
    import os
    open(os.path.join(workdir, 'gen', 'vf_coef_table.h'), 'w').write('static sample_t vf_coefs[COEF_CAP] = {' + ','.join(str(i) for i in range(12000)) + '};\n')


def obligations(tier):
    obls = [create_obl(3, timeout=300)]
    for kind in (0, 2, 1, 3, 8):
        obls.append(api_step(4, 0, 0, kind, 2))
    obls += [kern_eq_obl(p) for p in range(4)]       # table/kernel consistency of the portable-only fixed-length kernels
    obls += [coefs_obl(0, 0), coefs_obl(0, 2), coefs_obl(1, 0), coefs_obl(1, 2)]   # both coefficient layouts (coef / coef4) are filled by the same real code
    obls += [drv(1, ns=1), drv(2, ratio='2.0', solver=KISSAT), kern_obl(0, hn=8), kern_obl(0, hn=8, engine='cr64.c')]   # shared length/delay logic
    obls += [kern_poly_obl(k, e) for e in ('cr64.c', 'cr32.c') for k in (1, 2, 3)]      # interpolated poly-phase kernels of the portable engines: right table entry for every power of x
    obls += kern_imp_set(tier)      # every tap of the half-band tables is applied, to the right sample (portable and SSE kernels)
    return obls
