import os, re
from vf.props.common import *
from vf import runner
EXPLANATION = ('cbmc concurrency mode (all interleavings at shared-access granularity, sequential consistency) over the real lock protocol: '
               'ccrw2.h (real macros, included unchanged) and fft4g_cache.h (UPDATE_FFT_CACHE / DONE_WITH_FFT_CACHE / LSX_INIT_FFT_CACHE / '
               'LSX_SAFE_RDFT, instantiated as filter.c does; an encoded copy regenerated from the current header on every run in which only the '
               'two table POINTERS become integer handles, because cbmc rejects shared pointers under concurrency). 2-3 threads x 1-2 calls '
               'with symbolic lengths: locks initialised once and before use, released only when held; tables never reallocated / re-sized '
               'while another thread is inside a transform; no transform starts while a writer rebuilds; termination with all locks free and '
               'fft_len == max length (no deadlock within the bound).')
ASSUMPTIONS = ['OpenMP locks modelled as mutual-exclusion flags (no fairness); weak-memory reorderings below sequential consistency are outside',
               'the transform between its begin and end events is one "use" of the tables', 'lengths in {8,16,32}',
               'vr32.c fade_coefs lazy initialisation and the _soxr_trace_level write are not encoded here']


def gen_encoded_header(workdir):
    """mechanical rewrite of the current fft4g_cache.h: table pointers -> integer handles (each pattern exactly once)"""
    src = open(os.path.join(runner.REPO, 'src', 'fft4g_cache.h')).read()
    subs = [(r'static int \* LSX_FFT_BR;', 'static long LSX_FFT_BR;'),
            (r'static DFT_FLOAT \* LSX_FFT_SC;', 'static long LSX_FFT_SC;'),
            (r'sizeof\(\*LSX_FFT_BR\)', 'sizeof(int)'), (r'sizeof\(\*LSX_FFT_SC\)', 'sizeof(DFT_FLOAT)'),
            (r'LSX_FFT_BR\[0\] = 0;', 'vf_table_write();'),
            (r'LSX_FFT_SC = NULL;', 'LSX_FFT_SC = 0;'), (r'LSX_FFT_BR = NULL;', 'LSX_FFT_BR = 0;'),
            (r'assert\(LSX_FFT_BR == NULL\);', 'assert(LSX_FFT_BR == 0);'), (r'assert\(LSX_FFT_SC == NULL\);', 'assert(LSX_FFT_SC == 0);')]
    for pat, rep in subs:
        n = len(re.findall(pat, src))
        if n != 1:
            raise RuntimeError('fft4g_cache.h changed shape: pattern %r matches %d times - the encoding must be revisited' % (pat, n))
        src = re.sub(pat, rep, src)
    d = os.path.join(workdir, 'gen')
    os.makedirs(d, exist_ok=True)
    open(os.path.join(d, 'fft4g_cache_enc.h'), 'w').write(src)


def cache_obl(threads, calls, kf=None, timeout=2400, tiers=('quick', 'thorough'), len4=0, warm=0):
    return Obl(name='fftcache_t%d_c%d%s%s%s' % (threads, calls, '_lazyinit' if kf else '', '_len4' if len4 else '', '_warm%d' % warm if warm else ''), src='c17_cache.c',
               defs=['-DVF_THREADS=%d' % threads, '-DVF_CALLS=%d' % calls] + (['-DVF_LEN4'] if len4 else []) + (['-DVF_WARM=%d' % warm] if warm else []), ccflags=['-I' + os.path.join(runner.HARNESS, 'include', 'omp_model')],
               unwind=max(calls, threads) + 2, checks='none', slice=False, extra=['--sat-solver', 'cadical'], timeout=timeout, tiers=tiers, kf=kf, native=False, ndebug=False, mem_gb=24,
               desc='%d threads x %d lsx_safe_rdft calls, all interleavings%s%s' % (threads, calls, ' (probe of the known finding: first use inside the threads)' if kf else '', ', cache already filled for length %d by an earlier transform' % warm if warm else ''),
               bounds='%d threads, %d calls each, lengths in {8,16,32%s}; sequential consistency' % (threads, calls, ',64' if len4 else ''),
               stubs=['omp locks: harness/include/omp_model/omp.h + c17_cache.c', 'realloc/free/atexit and the transform lsx_rdft: event models'],
               funcs=['fft4g_cache.h:update_fft_cache', 'fft4g_cache.h:done_with_fft_cache', 'fft4g_cache.h:lsx_init_fft_cache',
                      'fft4g_cache.h:lsx_safe_rdft', 'ccrw2.h:ccrw2_become_reader', 'ccrw2.h:ccrw2_cease_reading',
                      'ccrw2.h:ccrw2_become_writer', 'ccrw2.h:ccrw2_cease_writing', 'ccrw2.h:ccrw2_init'])


def prepare(workdir):
    gen_encoded_header(workdir)


def obligations(tier):
    obls = [cache_obl(2, 1), cache_obl(2, 1, kf='KF_C17_LAZY_INIT'), cache_obl(3, 1, warm=32)]      # warm: cache filled by an earlier transform, so concurrent readers (and reader -> writer upgrades) occur
    if tier == 'thorough':
        obls += [cache_obl(2, 1, timeout=2400, len4=1)]
    return obls
