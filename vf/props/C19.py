from vf.props.common import *
EXPLANATION = ('cbmc over the real soxr-lsr.c on top of the real soxr.c/data-io.c over the abstract engine: one src_process / '
               'src_callback_read call with a symbolic SRC_DATA from any API state (counts within the offered frames, both written, '
               'return code iff error, end_of_input latched also for 0 frames, ratio forwarded with slew), NULL arguments, and the four '
               'sample-array helpers for every float32 / short / int bit pattern (nearest, saturating, FPU conversion never invalid).')
ASSUMPTIONS = ['src_ratio constant per obligation (1/src_ratio is a symbolic double division otherwise)',
               'totals with end_of_input are C03 (engine accounting) + the latch checked here; src_reset is soxr_clear (C10)']

def obligations(tier):
    obls = [lsr_obl(10), lsr_obl(11), lsr_obl(12), lsr_obl(13), lsr_obl(2)]
    for kind in (8, 2):
        for ratio in (('2.0',) if tier == 'quick' else ('2.0', '0.5', '1.0')):
            obls.append(lsr_obl(0, kind, 2, ratio)); obls.append(lsr_obl(1, kind, 2, ratio))
    if tier == 'thorough':
        obls += [lsr_obl(0, 8, 1, '2.0', cap=4), lsr_obl(1, 8, 1, '2.0', cap=4)]
    for (it, ot) in [(0, 0)]:      # the pull loop below src_callback_read (drain after end-of-input)
        obls.append(api_step(2, it, ot, 8, 2))
    # src_reset then a block with another ratio, for the constant-rate converter types (recipe flags from the real soxr_quality_spec)
    obls += [create_obl(4, 0, 2, orate='0.0', lsrid=i) for i in (1, 3, 4)] + [qspec_obl()]
    return obls
