from vf.props.common import *
EXPLANATION = ('cbmc over the real soxr_create / initialise / fatal_error / soxr_clear / soxr_set_io_ratio / soxr_delete0 with an allocation '
               'model in which EVERY allocation event fails or succeeds independently (a symbolic bit each: any subset, not only "the k-th"), '
               'and the engine create call may fail for any channel: no NULL is dereferenced (cbmc pointer checks), the call reports an '
               'error (NULL handle + *error / sticky error), nothing is leaked (live-block counter 0) and every engine object is closed '
               'exactly once, soxr_delete is safe afterwards.')
ASSUMPTIONS = ['engine side: only the quick-recipe path of _soxr_init is decided (stage array checked, FIFO allocations: known finding); the allocation sites of the filter design, DFT set-up, poly-phase tables, FIFO growth and vr32.c are NOT decided (DESIGN.md I.3)']

def obligations(tier):
    obls = []
    for kind in (2, 3, 8):
        for ch in ((2,) if tier == 'quick' else (1, 2)):
            obls.append(create_obl(1, kind, ch))
    if tier == 'thorough':
        obls += [create_obl(1, 0, 2), create_obl(1, 1, 2), create_obl(1, 3, 2, orate='0.0')]
    obls += [create_obl(1, 2, 2, orate='0.0'), create_obl(1, 8, 1, orate='0.0')]
    # engine side, quick recipe: every allocation of the real _soxr_init may fail (cbmc --malloc-may-fail): the stage array is checked,
    # the FIFO allocations are not (known finding; excluded in the first obligation, re-found by the probe)
    obls += [init_qq_obl(may_fail=True), init_qq_obl(may_fail=True, kf='KF_C20_FIFO_CREATE')]
    return obls
