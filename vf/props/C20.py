from vf.props.common import *
EXPLANATION = ('cbmc over the real soxr_create / initialise / fatal_error / soxr_clear / soxr_set_io_ratio / soxr_delete0 with an allocation '
               'model in which EVERY allocation event fails or succeeds independently (a symbolic bit each: any subset, not only "the k-th"), '
               'and the engine create call may fail for any channel: no NULL is dereferenced (cbmc pointer checks), the call reports an '
               'error (NULL handle + *error / sticky error), nothing is leaked (live-block counter 0) and every engine object is closed '
               'exactly once, soxr_delete is safe afterwards.')
ASSUMPTIONS = ['allocation sites below the engine boundary (cr.c/filter.c/fifo.h/vr32.c) are the subject of the engine-side obligations; see known findings']

def obligations(tier):
    obls = []
    for kind in (2, 3, 8):
        for ch in ((2,) if tier == 'quick' else (1, 2)):
            obls.append(create_obl(1, kind, ch))
    if tier == 'thorough':
        obls += [create_obl(1, 0, 2), create_obl(1, 1, 2), create_obl(1, 2, 2, orate='0.0')]
    obls += [create_obl(1, 2, 2, orate='0.0'), create_obl(1, 8, 1, orate='0.0')]
    return obls
