from vf.props.common import *
from vf import planenv
EXPLANATION = ('cbmc over the real soxr_create / soxr_set_io_ratio / initialise / soxr_set_num_channels with EVERY spec field symbolic '
               '(doubles over their whole range except NaN, datatypes and flags any bits, runtime spec any values, SOXR_* overrides any '
               'subset/any value) over the abstract engine: NULL handle iff error string; spec-carried errors, datatypes > 7, one zero '
               'rate, non-positive ratio are rejected; env overrides are applied only inside their documented ranges. '
               'Sticky error: one API call from any state with an error pending makes no engine call, no input-fn call and no output; an error raised by an engine (or an allocation) during a deferred or repeated initialisation is returned and stays recorded in the surviving object.')
ASSUMPTIONS = ['NaN spec fields are outside the claim (the property quantifies over finite rates; NaN precision/phase pass the range comparisons of cr.c as written)']

def obligations(tier):
    obls = []
    for kind, orate in ((2, '1.0'), (3, '0.0'), (8, '-2.0')) if tier == 'quick' else [(k, o) for k in (2, 3, 8, 0, 1) for o in ('1.0', '0.0', '-2.0', '0.5')]:
        obls.append(create_obl(0, kind, 2, orate=orate))
    obls.append(create_obl(3, timeout=300))
    # an error raised by the engines during a deferred (soxr_set_io_ratio) or repeated (soxr_clear) initialisation is reported AND stays recorded
    obls += [create_obl(1, 2, 2, orate='0.0'), create_obl(1, 8, 1, orate='0.0')]
    obls += [plan_obl(0), plan_obl(2), plan_obl(1, 0), plan_obl(1)]
    for op in (0, 2):
        for (it, ot) in [(0, 1), (6, 3)]:
            obls.append(api_step(op, it, ot, 2, 2))
    obls.append(api_step(4, 0, 0, 2, 2)); obls.append(api_step(4, 0, 0, 8, 2)); obls.append(api_step(1, 0, 0, 2, 2))
    obls.append(init_qq_obl())      # real _soxr_init for the quick recipe: cubic stage inside its envelope
    obls.append(plan_obl(3))      # the halving loop of _soxr_init terminates for every finite ratio
    obls += planenv.obls(tier)      # ENV-(b): plans of the real _soxr_init inside the envelope the kernel obligations assume (enumeration, labelled)
    return obls
