from vf.props.common import *
EXPLANATION = ('cbmc: (a) split lemma per real stage kernel by self-composition: the same stage state fed a samples then b more (two calls) '
               'versus a+b at once ends in the same clock state with the same number of outputs and inputs consumed - for every kernel kind, all '
               'clock values, all split points; with data-independent control (no kernel branches on sample values; count assertions hold with '
               'data nondeterministic) output sample k is the same function of the same window and phase in both schedules; (b) the cr.c driver '
               'moves every frame through the FIFOs exactly once (inductive step over abstract stages); (c) one real soxr.c call (push / pull with '
               'any short supply) hands every input frame to the engine once and in order and delivers engine frames in order without gap or '
               'duplicate (ghost sequence numbers), so push, pull and one-shot see the same engine stream.')
ASSUMPTIONS = ['"same positions => bit-identical samples" is the data-independence argument of DESIGN.md section 4 (paper step over solver-checked facts)',
               'FFT numerics of the DFT stage are not encoded; its block bookkeeping is the dft obligations\' subject']

def obligations(tier):
    obls = kern_set(tier, split=True)
    obls += [drv(0), drv(1, ns=0), drv(1, ns=1)]
    for (it, ot) in [(0, 0), (5, 2), (3, 4)] if tier == 'quick' else [(i, (i * 3 + 1) % 8) for i in range(8)]:
        for op in (0, 2):
            obls.append(api_step(op, it, ot, 2, 2))
    obls += dft_set(tier)      # the DFT stage: block bookkeeping and phase carry of the real dft_stage_fn
    obls += [drv(1, ns=1, item=8), drv(1, ns=0, item=8)]
    obls += fifo_obls()      # fifo.h: reserve / compaction / growth / read / trim
    return obls
