from vf.props.common import *
from vf.props.e4cfg import *
LEVEL = 'other'
JOBS = 6      # each obligation runs a portfolio of z3 processes on big-integer polynomials: memory-bound, keep the machine below saturation
EXPLANATION = ('Hybrid, stated as such: the taps are obtained by concrete native execution of the real library built from the current tree '
               '(whole-conversion impulse responses of small rational ratios; every single-phase filter that the real _soxr_init designs, '
               'intercepted with ld --wrap); the DECIDING step is z3 on the exact polynomial in cos w: "exists a stop-band frequency where '
               '|H| exceeds 2^-bits of the DC gain" is unsat over the whole continuum [stop-band start, Nyquist] - not probe frequencies. '
               'The seven half-band tables of half-coefs.h are decided the same way against the attenuation the selection table promises.')
ASSUMPTIONS = ['configurations: the stated finite list (small-ratio end-to-end prototypes <= 520 taps quick / 1500 thorough; stage filters likewise)',
               'poly-phase (arbitrary-ratio) prototypes have thousands of taps and are not decided; FFT overlap-save numerics enter through the measured impulse responses only',
               'per-stage checks use the band edges handed to lsx_design_lpf (code) and the attenuation bound of the property (2^-bits per stage)']

def obligations(tier):
    obls = [e2e_obl(c, ('stop',), tier) for c in e2e_cfgs(tier)]
    obls += [e2e_obl(c, ('stop',), tier) for c in e2e_phase_cfgs(tier)]
    obls += [stage_obl(c, ('stop',), tier) for c in stage_cfgs(tier)]
    obls += [stage_obl(c, ('stop',), tier) for c in stage_phase_cfgs(tier)]
    obls += half_band_obls(tier)
    obls += kern_imp_set(tier)      # every tap of the half-band tables is applied, to the right sample (portable and SSE kernels)
    return obls
