from vf.runner import Obl
from vf.props.common import *
from vf import planenv
EXPLANATION = ('Bounded model checking (cbmc, SAT) of the real translation units with exactly-sized buffers: '
               'L1 = one API call of soxr.c + data-io.c from an arbitrary API state over the abstract engine; '
               'pointer, bounds, overflow, shift, float->int conversion and division checks instrumented by cbmc, '
               'plus the buffer-contract assertions idone<=ilen, odone<=olen.')
ASSUMPTIONS = ['io_ratio in [2^-12, 2^12]', 'out is non-NULL unless in is NULL too (documented use)',
               'input function returns at most the requested length']
def obligations(tier):
    obls = []
    if tier == 'quick':
        pairs = [(i, (i * 3 + 1) % 8) for i in range(8)] + [(1, 5), (6, 2)]
    else:
        pairs = [(i, o) for i in range(8) for o in range(8)]
    for op in (0, 2):
        for (it, ot) in pairs:
            for kind in (2, 3):
                for ch in (1, 2):
                    obls.append(api_step(op, it, ot, kind, ch))
    for op in (1, 4):
        for (it, ot) in [(0, 0), (5, 6), (3, 7), (6, 1)]:
            for kind in (2, 3, 8):
                obls.append(api_step(op, it, ot, kind, 2))
    obls += [api_step(0, 4, 4, 2, 2, omp=1), api_step(2, 4, 4, 2, 2, omp=1), api_step(0, 5, 7, 3, 2, omp=1), api_step(2, 1, 2, 2, 2, omp=1)]      # OpenMP build's per-channel loops
    from vf.props import C11 as _c11
    obls += [_c11.conv(dbl, ot, ch, n, n - 1, c=ch - 1) for dbl in (0, 1) for ot in (2, 3) for ch in (1, 2) for n in (15, 16, 31)]      # integer output converters on exactly-sized buffers at the edges of their 16-sample blocks
    obls += kern_set(tier)        # L3: every access of the real kernels inside the FIFO allocations / coefficient table, library asserts on
    obls += [plan_obl(0), plan_obl(1), plan_obl(1, 0), plan_obl(2)]      # planner pieces of cr.c (set_dft_length / dft_stage_init / validation prefix)
    obls.append(init_qq_obl())      # real _soxr_init for the quick recipe: cubic stage inside its envelope
    obls.append(plan_obl(3))      # the halving loop of _soxr_init terminates for every finite ratio
    obls += dft_set(tier)      # the DFT stage: block bookkeeping and phase carry of the real dft_stage_fn
    obls += dft_bigfifo_set()      # ... with a very full input FIFO (extreme up-sampling ratios)
    obls += planenv.obls(tier)      # ENV-(b): plans of the real _soxr_init inside the envelope the kernel obligations assume (enumeration, labelled)
    obls += [kern_obl(0, hn=8, engine='cr32s.c'), kern_obl(1, ntaps=4, engine='cr32s.c')]      # SSE kernels (shufps/movhlps modelled as exact lane permutations)
    if tier == 'thorough':
        obls += [kern_obl(2, order=2, ntaps=4, maxin=2, engine='cr32s.c', timeout=1500), kern_obl(1, ntaps=4, split=1, maxin=2, engine='cr32s.c', timeout=1500)]
    obls += fifo_obls()      # fifo.h: reserve / compaction / growth / read / trim
    obls += [vr_obl(1), vr_obl(2), vr_switch_obl(0), vr_switch_obl(1), vr_switch_obl(2), vr_switch_obl(3)]      # vr32.c: kernels' accesses and the stage-switch rescaling (shift / overflow checks on the real code)
    return obls
