from vf.runner import Obl
from vf.props.common import *
EXPLANATION = ('Bounded model checking (cbmc, SAT) of the real translation units with exactly-sized buffers: '
               'L1 = one API call of soxr.c + data-io.c from an arbitrary API state over the abstract engine; '
               'pointer, bounds, overflow, shift, float->int conversion and division checks instrumented by cbmc, '
               'plus the buffer-contract assertions idone<=ilen, odone<=olen.')
ASSUMPTIONS = ['io_ratio in [2^-12, 2^12]', 'out is non-NULL unless in is NULL too (documented use)',
               'input function returns at most the requested length']
OPS = {0: 'push', 1: 'flush', 2: 'pull', 4: 'query'}

def step(op, it, ot, kind, ch, cap=3):
    return Obl(name='api_%s_i%d_o%d_k%d_ch%d' % (OPS[op], it, ot, kind, ch), src='api_step.c',
               extra_srcs=['src/data-io.c', 'x87_glue.c'],
               defs=['-DVF_OP=%d' % op, '-DVF_ITYPE=%d' % it, '-DVF_OTYPE=%d' % ot, '-DVF_KIND=%d' % kind,
                     '-DVF_CH=%d' % ch, '-DVF_CAP=%d' % cap, '-DAE_FIXED_BUFS=%d' % (cap + 1), '-DVF_DATAIO_MEMCPY', '-DVF_X87_ABSTRACT'] ,
               ccflags=X87, unwind=cap + 2, unwindset=rint_blocks(1) + ['soxr_output.0:14', 'fixed_alloc.0:%d' % (cap * 16 + 2), 'check_canaries.0:%d' % (cap * 16 + 2), 'check_canaries.1:8', 'vf_word_memcpy.0:%d' % (cap * 2 + 2)], timeout=300,
               desc='one %s call, itype %d otype %d (bit 2 = split), engine kind %d, %d channel(s)' % (OPS[op], it, ot, kind, ch),
               bounds='frames<=%d per call, input-fn calls<=4, engine rounds<=6' % cap,
               stubs=[AE_STUB, X87_STUB, ENV_STUB],
               funcs=['soxr.c:soxr_process', 'soxr.c:soxr_output', 'soxr.c:soxr_input', 'soxr.c:soxr_output_no_callback'])

def obligations(tier):
    obls = []
    if tier == 'quick':
        pairs = [(i, (i * 3 + 1) % 8) for i in range(8)] + [(i, (i + 4) % 8) for i in range(8)]
    else:
        pairs = [(i, o) for i in range(8) for o in range(8)]
    for op in (0, 2):
        for (it, ot) in pairs:
            for kind in (2, 3):
                for ch in (1, 2):
                    obls.append(step(op, it, ot, kind, ch))
    for op in (1, 4):
        for (it, ot) in [(0, 0), (5, 6), (3, 7), (6, 1)]:
            for kind in (2, 3, 8):
                obls.append(step(op, it, ot, kind, 2))
    return obls
