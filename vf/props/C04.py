from vf.props.common import *
from vf import planenv
from vf.props.e4cfg import *
EXPLANATION = ('cbmc over the real stage kernels (cr-core.c via cr32.c / cr64.c: poly-fir.h stdPrecCore + highPrecCore, poly-fir0.h, half-fir.h, '
               'cubic_stage_fn): one call from ANY clock value in range: the virtual read position consumed*unit + at advances by exactly '
               'step per output frame - 32.32 clock, 32.32+64 clock incl. the carry between the halves (exact 128-bit identity), rational '
               'L/M stepping with phase in [0,L) (no drift at all), half-band 2:1 - and is re-normalised without loss at the end of the call; '
               'output count is exactly the number of clock ticks that fit the input. Induction over calls gives "no drift over streams of any length".')
ASSUMPTIONS = ['the planner-side set-up of at/step/preload in _soxr_init (cr.c:428-474) is not symbolically executable (DESIGN.md section 3): the '
               'alignment of the FIRST output frame for the plans of the configuration list is decided by the E4 impulse-response obligations (see evidence), '
               'not for all ratios']

def obligations(tier):
    obls = [o for o in kern_set(tier) if 'oirtight' not in o.name]
    # alignment of the first output frame / zero net delay for the plans of the list: hybrid E4 (measured whole-conversion prototype of the
    # real library, exact arithmetic: peak at the input instant, symmetric about it, unit gain per output phase)
    obls += [e2e_obl(c, ('sym', 'gain'), tier) for c in align_cfgs(tier)]
    obls += [e2e_obl(c, ('sym',), tier) for c in e2e_cfgs(tier)[:8]]
    obls += [plan_obl(1, 0)]      # planner pieces of cr.c (set_dft_length / dft_stage_init / validation prefix)
    obls.append(init_qq_obl())      # real _soxr_init for the quick recipe: cubic stage inside its envelope
    obls += dft_set(tier)      # the DFT stage: block bookkeeping and phase carry of the real dft_stage_fn
    obls += planenv.obls(tier)      # ENV-(b): plans of the real _soxr_init inside the envelope the kernel obligations assume (enumeration, labelled)
    return obls
