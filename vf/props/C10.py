from vf.props.common import *
EXPLANATION = ('cbmc, self-composition on the real soxr_create / soxr_clear / soxr_delete0 / initialise over the abstract engine: the object '
               'right after creation (the fresh state) is snapshotted, ANY history is applied (history-dependent scalars arbitrary, '
               'soxr_set_io_ratio and soxr_set_input_fn really called, engines used and flushed), then soxr_clear: every behaviour-relevant '
               'field of struct soxr and every argument the engines are re-created with equals the fresh snapshot; nothing is leaked.')
ASSUMPTIONS = ['dither seed excluded (fresh objects take it from time(); the property sets dither aside)',
               'process-wide static tables of the variable-rate engine and the FFT cache are below the abstract engine: see DESIGN.md (C10 static-table part is not claimed here)']

def obligations(tier):
    obls = []
    for kind in (2, 3, 8):
        for ch in ((2,) if tier == 'quick' else (1, 2)):
            obls.append(create_obl(2, kind, ch))
    if tier == 'thorough':
        obls += [create_obl(2, 0, 2), create_obl(2, 1, 2), create_obl(2, 2, 2, orate='4.0')]
    return obls
