from vf.props.common import *
EXPLANATION = ('cbmc, self-composition on the real soxr_create / soxr_clear / soxr_delete0 / initialise over the abstract engine: the object '
               'right after creation (the fresh state) is snapshotted, ANY history is applied (history-dependent scalars arbitrary, '
               'soxr_set_io_ratio and soxr_set_input_fn really called, engines used and flushed), then soxr_clear: every behaviour-relevant '
               'field of struct soxr and every argument the engines are re-created with equals the fresh snapshot; nothing is leaked. Process-wide VR tables: two real vr_init calls with symbolic gains A, B (each with or without decimation stages) and one real vr_process call of the second instance: it applies gain B (path-wise symbolic execution).')
ASSUMPTIONS = ['dither seed excluded (fresh objects take it from time(); the property sets dither aside)',
               'FFT-cache tables (bit-identity across cache growth) are below the abstract engine and not decided; the VR coefficient tables are decided with DC-gain semantics (goto-level substitution of prepare_coefs / per-sample kernels / IIR pair)']

def obligations(tier):
    obls = []
    for kind in (2, 3, 8):
        for ch in ((2,) if tier == 'quick' else (1, 2)):
            obls.append(create_obl(2, kind, ch))
    if tier == 'thorough':
        obls += [create_obl(2, 0, 2), create_obl(2, 1, 2), create_obl(2, 2, 2, orate='4.0')]
    obls += [vr_tables_obl(0), vr_tables_obl(1), vr_tables_obl(1, astages=0), vr_tables_obl(0, astages=1)]      # process-wide VR coefficient tables vs a second instance with another gain
    return obls
