from vf.props.common import *
from vf import planenv
EXPLANATION = ('cbmc with unwinding assertions over the real loops: _soxr_process / stage_process of cr.c over abstract stages that meet '
               'the progress contract (each loop iteration appends output, so the trip count is bounded by the request; after '
               'end-of-input everything owed up to the request is made available: drain), the soxr_output pull loop of soxr.c with any '
               'input-function behaviour (terminates within supply+3 iterations; end-of-input starts the drain in the same call), and '
               'the progress obligation of every real stage kernel (L3: a stage holding input_size samples appends >= 1 and consumes >= 1).')
ASSUMPTIONS = ['ENV: input_size > pre_post for every stage (established by the planner; see known findings for the QQ stage with io_ratio > 8192)',
               'request sizes <= 4 per call for the unwinding bounds (the variant argument does not depend on the size)']

def obligations(tier):
    obls = [drv(1, ns=0), drv(1, ns=1), drv(1, ns=1, item=8)]
    for (it, ot) in [(0, 1), (3, 2), (6, 3), (5, 4)]:
        for kind in (2, 3):
            obls.append(api_step(2, it, ot, kind, 2))
    for (it, ot) in [(0, 0), (5, 6)]:
        obls.append(api_step(1, it, ot, 2, 2))
    obls += [o for o in kern_set(tier) if 'oirtight' not in o.name and 'hiprec' not in o.name]
    obls += [plan_obl(0), plan_obl(1, 0)]      # planner pieces of cr.c (set_dft_length / dft_stage_init / validation prefix)
    obls.append(init_qq_obl())      # real _soxr_init for the quick recipe: cubic stage inside its envelope
    obls.append(plan_obl(3))      # the halving loop of _soxr_init terminates for every finite ratio
    obls += dft_set(tier)      # the DFT stage: block bookkeeping and phase carry of the real dft_stage_fn
    obls += dft_bigfifo_set()      # ... with a very full input FIFO (extreme up-sampling ratios)
    obls += planenv.obls(tier)      # ENV-(b): plans of the real _soxr_init inside the envelope the kernel obligations assume (enumeration, labelled)
    return obls
