from vf.props.common import *
EXPLANATION = ('cbmc over the real soxr_output pull loop (soxr.c) with a nondeterministic input function (any supply '
               '1..requested, end-of-input or failure at any call index) and an abstract engine with arbitrary supply; '
               'inductive step: one soxr_output call from any API state (incl. error / end-of-input already latched).')
ASSUMPTIONS = ['the input function returns at most the requested length', 'failure is a NULL *data with ANY returned length <= requested (soxr.h lists length 0; soxr.c tests the pointer only)', 'io_ratio in [2^-12, 2^12]']

def obligations(tier):
    obls = []
    pairs = [(i, (i * 3 + 1) % 8) for i in range(8)] if tier == 'quick' else [(i, o) for i in range(8) for o in (0, 3, 5, 6)]
    for (it, ot) in pairs:
        for kind in (2, 3):
            for ch in (1, 2):
                obls.append(api_step(2, it, ot, kind, ch, cap=3 if tier == 'quick' else 4))
    obls += [api_step(4, 0, 0, 2, 2), api_step(4, 0, 0, 8, 2), lsr_obl(1, 8, 2, '2.0'), lsr_obl(1, 2, 2, '2.0')]
    return obls
