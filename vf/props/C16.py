from vf.props.common import *
EXPLANATION = ('cbmc over the real vr32.c arithmetic: (1) slew set-up set_step_step for every current step and target below 2^44 and a list of slew '
               'lengths: the per-frame increment has the sign of (target - step), the total movement over slew_len frames is within half a '
               '2^-32 unit per frame of the target (so the final snap is below one LSB per frame: monotone up to that LSB), the int and '
               'int64 division paths agree; (2) poly_fir_u / poly_fir_d: per output frame the read position advances by step and step by '
               'step_step exactly once (incomplete pair rolled back), stops only when input is exhausted; (2b) one real vr_process call across the octave boundary at ratio 1 and at ratio 2, both directions (path-wise symbolic execution; kernels replaced at goto level by no-frame stubs): the fade-in and fade-out streams describe the same ratio, slew rate and input instant; (3) soxr.c: ratio and slew '
               'length are forwarded to every channel of a variable-rate engine, constant-rate engines refuse a different ratio with an '
               'error and stay unchanged (one call from any API state).')
ASSUMPTIONS = ['audio statements (-80 dB residual, no discontinuity at ratio changes and cross-fades) are floating-point/IIR properties: NOT decided (DESIGN.md section 9) - partial',
               'stage switches are encoded for stages -1 <-> 0 <-> 1 (those above repeat the 0 <-> 1 case with other FIFO contents); slew length constant per obligation and |target - step| < 2^20 in the quick tier (symbolic lengths / full ranges gave no verdict on any back end)']

def obligations(tier):
    obls = [vr_obl(1), vr_obl(2), vr_obl(1, fade=2), vr_obl(1, fade=-2), vr_obl(2, fade=1), vr_obl(2, fade=-1)]      # plain and cross-fade kernels
    for sl in ('1', '7', '1000', '2147483647u') if tier == 'quick' else ('1', '2', '3', '7', '64', '441', '1000', '48000', '1048576', '2147483647u'):
        obls.append(vr_obl(0, sl))
    if tier == 'thorough':
        obls += [vr_obl(0, sl, difbits=34, timeout=1800, tiers=('thorough',)) for sl in ('7', '1000')]
    obls += [vr_obl(4, sl) for sl in ('7', '1000')]      # vr_set_io_ratio while a cross-fade is running: both streams slew to the same ratio
    obls += [vr_switch_obl(0), vr_switch_obl(1), vr_switch_obl(2), vr_switch_obl(3), vr_snap_obl(1), vr_snap_obl(0)]      # the stage-switch block of the real vr_process, both directions across ratio 1
    for kind in (8, 2, 3):
        obls.append(api_step(4, 0, 0, kind, 2))
    obls.append(lsr_obl(0, 8, 2, '2.0'))
    return obls
