from vf.props.common import *
from vf.props.e4cfg import *
LEVEL = 'other'
JOBS = 6      # each obligation runs a portfolio of z3 processes on big-integer polynomials: memory-bound, keep the machine below saturation
EXPLANATION = ('Hybrid (see C02): taps by concrete execution of the real library, deciding step by z3 over the frequency continuum: for every '
               'in-band frequency (not probe tones) the whole-conversion prototype of the small-ratio configurations has gain within the '
               'roll-off class of 1 (<= 0.01 dB / <= 0.35 dB / 2^(1-bits)), is symmetric about the input instant for linear phase (so the '
               'response is a pure zero-phase amplitude: G(w) = A(w), no time shift) and its images/aliases are below 2^-bits (C02); every '
               'designed single-phase stage filter is flat to 2^(1-bits) over its pass-band; half-band tables flat over [0, pi/4]. '
               'Long rational plans (44.1k<->48k, 48k->88.2k ...): alignment and per-phase DC gain by exact arithmetic on the measured prototype. '
               'cbmc: recipe -> (precision, pass-band, roll-off) mapping of soxr_quality_spec for all recipe words.')
ASSUMPTIONS = ['fractional-delay accuracy of interpolated-coefficient stages (irrational ratios), prototypes above the tap limit, rounding noise for non-impulse '
               'inputs: NOT decided (DESIGN.md section 9) - this check is partial',
               'configuration list as stated, engines cr32/cr32s/cr64/cr64s selected through SOXR_USE_SIMD*/SOXR_DOUBLE_PRECISION']

def obligations(tier):
    obls = [qspec_obl()]
    # (an explicit stop-band above the output Nyquist: what folds back into the pass-band is the stop-band leak, so that part is checked here too)
    obls += [e2e_obl(c, ('pass', 'stop', 'sym') if c.stopband > 0 else ('pass', 'sym'), tier) for c in e2e_cfgs(tier)]
    obls += [stage_obl(c, ('pass',), tier) for c in stage_cfgs(tier)]
    obls += [e2e_obl(c, ('sym', 'gain'), tier) for c in align_cfgs(tier)]
    obls += half_band_obls(tier, 'pass')
    obls += kern_imp_set(tier)      # every tap of the half-band tables is applied, to the right sample (portable and SSE kernels)
    obls += [coefs_cont_obl(o, c) for o in (1, 2, 3) for c in (0, 3)]      # interpolated-coefficient stages: the coefficient polynomials run through the prototype samples
    if tier == 'thorough':
        obls += [coefs_cont_obl(o, c) for o in (1, 2, 3) for c in (1, 2)]
    return obls
