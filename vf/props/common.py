"""shared pieces of the property modules"""
X87 = ['-Dsoxr_rint_included', '-include', 'x87_model.h']
RINT_KERNELS = ['lsx_rint%d_clip%s%s%s' % (b, two, d, f) for b in (32, 16) for two in ('', '_2')
                for d in (('', '_dither') if b == 16 else ('',)) for f in ('', '_f')]


def rint_blocks(n):
    """unwindset entries for the 16-sample block loops of the 12 conversion kernels: n = max block iterations + 1"""
    return ['%s.0:%d' % (k, n) for k in RINT_KERNELS]


X87_STUB = 'x87 FIST/FNSTSW/FLDENV inline asm of rint.h replaced by harness/include/x87_model.h (validated natively against the asm)'
AE_STUB = 'abstract engine behind control_block (harness/include/abs_engine.h): exact-size buffers, any per-round supply, lock-step channels'
ENV_STUB = 'getenv() returns NULL (no SOXR_* overrides) unless the harness says otherwise; time() arbitrary'
