from vf.runner import Obl
"""shared pieces of the property modules"""
X87 = ['-Dsoxr_rint_included', '-include', 'x87_model.h']
RINT_KERNELS = ['lsx_rint%d_clip%s%s%s' % (b, two, d, f) for b in (32, 16) for two in ('', '_2')
                for d in (('', '_dither') if b == 16 else ('',)) for f in ('', '_f')]


def rint_blocks(n):
    """unwindset entries for the 16-sample block loops of the 12 conversion kernels: n = max block iterations + 1"""
    return ['%s.0:%d' % (k, n) for k in RINT_KERNELS]


X87_STUB = 'x87 FIST/FNSTSW/FLDENV inline asm of rint.h replaced by harness/include/x87_model.h (validated natively against the asm)'
AE_STUB = 'abstract engine behind control_block (harness/include/abs_engine.h): exact-size buffers, any per-round supply, lock-step channels'
ENV_STUB = 'getenv() returns NULL (no SOXR_* overrides) unless the harness says otherwise; time() arbitrary'


OPS = {0: 'push', 1: 'flush', 2: 'pull', 4: 'query'}

def api_step(op, it, ot, kind, ch, cap=3, omp=0):
    # omp=1: compiled with _OPENMP defined, so that the "#if defined _OPENMP" copies of the per-channel loops of soxr.c are the code
    # under analysis (taken when num_threads == 0 and channels > 1); cbmc ignores the pragma: the region runs in program order
    return Obl(name='api_%s_i%d_o%d_k%d_ch%d%s' % (OPS[op], it, ot, kind, ch, '_omp' if omp else ''), src='api_step.c',
               extra_srcs=['src/data-io.c', 'x87_glue.c'],
               defs=['-DVF_OP=%d' % op, '-DVF_ITYPE=%d' % it, '-DVF_OTYPE=%d' % ot, '-DVF_KIND=%d' % kind,
                     '-DVF_CH=%d' % ch, '-DVF_CAP=%d' % cap, '-DAE_FIXED_BUFS=%d' % (cap + 1), '-DVF_DATAIO_MEMCPY', '-DVF_X87_ABSTRACT'] + (['-D_OPENMP=201511'] if omp else []),
               ccflags=X87, unwind=cap + 2, unwindset=rint_blocks(1) + ['soxr_output.0:14', 'fixed_alloc.0:%d' % (cap * 16 + 2), 'check_canaries.0:%d' % (cap * 16 + 2), 'check_canaries.1:8', 'vf_word_memcpy.0:%d' % (cap * 2 + 2)], timeout=300,
               desc='one %s call, itype %d otype %d (bit 2 = split), engine kind %d, %d channel(s)%s' % (OPS[op], it, ot, kind, ch, ', OpenMP build (per-channel loops of the _OPENMP copies, one schedule)' if omp else ''),
               bounds='frames<=%d per call, input-fn calls<=4, engine rounds<=6' % cap,
               stubs=[AE_STUB, X87_STUB, ENV_STUB],
               funcs=['soxr.c:soxr_process', 'soxr.c:soxr_output', 'soxr.c:soxr_input', 'soxr.c:soxr_output_no_callback'])



KISSAT = ['--external-sat-solver', 'kissat']
DRV_OPS = {0: 'input', 1: 'process_output', 2: 'flush', 3: 'delay'}
DRV_STUB = ('cr.c driver over abstract stage kernels (contract: consume <= available, append <= 3, progress once input_size is buffered - '
            'the L3 kernel obligations) and FIFO payload abstracted (memcpy/memmove/memset no-ops, unbounded allocation; fifo_lemma covers payload and growth)')


def drv(op, ns=1, item=4, nbits=31, ratio=None, ratio_bits=None, solver=None, timeout=900, tiers=('quick', 'thorough')):
    """one cr.c driver call (cr_drv.c) from any state satisfying the accounting invariant"""
    defs = ['-DVF_OP=%d' % op, '-DVF_NS=%d' % ns, '-DVF_ITEM=%d' % item, '-DVF_NBITS=%d' % nbits]
    name = 'drv_%s_ns%d_r%d_n%d' % (DRV_OPS[op], ns, item, nbits)
    b = 'frames in/out < 2^%d, request <= 4, stages %d, per-stage input_size <= 3, io_ratio ' % (nbits, ns)
    if ratio is not None:
        defs.append('-DVF_RATIO=%s' % ratio)
        name += '_ratio%s' % str(ratio).replace('.', 'p').replace('/', 'o').replace('(', '').replace(')', '')
        b += '== %s' % ratio
    elif ratio_bits:
        defs.append('-DVF_RATIO_BITS=%d' % ratio_bits)
        name += '_rb%d' % ratio_bits
        b += 'any multiple of 2^-%d in [2^-12, 2^12]' % (ratio_bits - 12)
    else:
        b += 'any double in [2^-12, 2^12]'
    return Obl(name=name, src='cr_drv.c', defs=defs, unwind=5,
               unwindset=['_soxr_process.0:6', 'stage_process.0:5'], object_bits=11, extra=list(solver or []), timeout=timeout, tiers=tiers,
               desc='cr.c %s: one call from any state satisfying the accounting invariant' % DRV_OPS[op], bounds=b,
               stubs=[DRV_STUB],
               funcs=['cr.c:_soxr_input', 'cr.c:_soxr_process', 'cr.c:stage_process', 'cr.c:_soxr_output', 'cr.c:_soxr_flush',
                      'cr.c:_soxr_delay', 'fifo.h:fifo_reserve', 'fifo.h:fifo_read', 'fifo.h:fifo_occupancy'])


CRE_MODES = {0: 'validate', 1: 'allocfail', 2: 'clear_eq_fresh', 3: 'select', 4: 'lsr_reset_new_ratio'}
CRE_STUB = ('allocation model for soxr.c: calloc/free redirected to exactly-sized typed malloc objects with a live-block ghost counter '
            '(and, for C20, one symbolic failure bit per allocation event); control-block memcpy / object memset done on typed objects')
ENVSTR_STUB = 'getenv() returns any subset of the SOXR_* variables with any int value (atoi model decodes it)'


def create_obl(mode, kind=2, ch=2, orate='1.0', timeout=600, tiers=('quick', 'thorough'), prec=20, lsrid=None):
    name = 'create_%s_k%d_ch%d_or%s' % (CRE_MODES[mode], kind, ch, orate.replace('.', 'p').replace('-', 'm')) + ('' if lsrid is None else '_type%d' % lsrid)
    defs = ['-DVF_MODE=%d' % mode, '-DVF_KIND=%d' % kind, '-DVF_ORATE=%s' % orate, '-DAE_NO_SEQ', '-DVF_PREC=%d' % prec] + ([] if lsrid is None else ['-DVF_LSRID=%d' % lsrid])
    if mode != 3:
        defs.append('-DVF_CH=%d' % ch)
    return Obl(name=name, src='create_step.c', defs=defs, unwind=3, native_srcs=['src/data-io.c'],
               unwindset=['vf_streq.0:24', 'getenv.0:11', 'memcmp.0:90', 'vf_memcpy.0:11', 'vf_calloc.0:33'],
               timeout=timeout, tiers=tiers, malloc_may_fail=False, mem_gb=16,
               desc='soxr.c object life-cycle (%s): real soxr_create/initialise/soxr_set_io_ratio/soxr_clear/soxr_delete over the abstract engine, engine kind %d, %s channel(s), output rate %s' % (CRE_MODES[mode], kind, ch if mode != 3 else 'any', orate),
               bounds='channels == %s; output rate == %s, input rate any finite double (0 or 1e-6..1e12 in magnitude); every other spec field symbolic (no NaN); <= 24 allocation events' % (ch if mode != 3 else '0..2', orate),
               stubs=[AE_STUB, CRE_STUB, ENVSTR_STUB],
               ignore_props=[r'no body for callee (fputc|vfprintf|log10|log|pow|exp)'],
               funcs=['soxr.c:soxr_create', 'soxr.c:initialise', 'soxr.c:soxr_set_io_ratio', 'soxr.c:soxr_clear', 'soxr.c:soxr_delete0',
                      'soxr.c:soxr_delete', 'soxr.c:fatal_error', 'soxr.c:soxr_delay', 'soxr.c:runtime_num', 'soxr.c:runtime_flag',
                      'soxr.c:should_use_simd32', 'soxr.c:should_use_simd64'])


LSR_OPS = {0: 'src_process', 1: 'src_callback_read', 2: 'null_args', 10: 'float_to_short', 11: 'float_to_int', 12: 'short_to_float', 13: 'int_to_float'}


def lsr_obl(op, kind=8, ch=2, ratio='2.0', cap=3, timeout=400):
    helper = op >= 10
    defs = ['-DVF_OP=%d' % op, '-DVF_KIND=%d' % kind, '-DVF_CH=%d' % ch, '-DVF_RATIO=%s' % ratio, '-DVF_CAP=%d' % cap,
            '-DAE_FIXED_BUFS=%d' % (cap + 1), '-DVF_DATAIO_MEMCPY']
    if not helper:
        defs.append('-DVF_X87_ABSTRACT')
    name = 'lsr_%s' % LSR_OPS[op] + ('' if helper else '_k%d_ch%d_r%s' % (kind, ch, ratio.replace('.', 'p')))
    return Obl(name=name, src='lsr_step.c', extra_srcs=['src/data-io.c', 'x87_glue.c'], defs=defs, ccflags=X87, unwind=cap + 2,
               unwindset=rint_blocks(1) + ['soxr_output.0:14', 'fixed_alloc.0:%d' % (cap * 16 + 2), 'check_canaries.0:%d' % (cap * 16 + 2),
                                           'check_canaries.1:8', 'vf_word_memcpy.0:%d' % (cap * 2 + 2)],
               timeout=timeout,
               desc='soxr-lsr.c %s' % LSR_OPS[op],
               bounds=('2 elements, every bit pattern' if helper else 'frames <= %d, src_ratio == %s, %d channels, engine kind %d' % (cap, ratio, ch, kind)),
               stubs=[X87_STUB] if helper else [AE_STUB, X87_STUB, ENV_STUB],
               funcs=['soxr-lsr.c:src_process', 'soxr-lsr.c:src_callback_read', 'soxr-lsr.c:src_simple', 'soxr-lsr.c:src_reset',
                      'soxr-lsr.c:src_float_to_short_array', 'soxr-lsr.c:src_float_to_int_array', 'soxr-lsr.c:src_short_to_float_array',
                      'soxr-lsr.c:src_int_to_float_array', 'soxr.c:soxr_set_error', 'soxr.c:soxr_process', 'soxr.c:soxr_output'])


KERN_NAMES = {0: 'halfband', 1: 'vpoly0', 2: 'polyinterp', 3: 'cubic', 4: 'fixed0'}
KERN_STUB = ('stage state constructed directly inside the stage envelope ENV(kind) (what cr.c:_soxr_init sets up: pre/pre_post/input_size, clock ranges, '
             'coefficient table size); sample and coefficient DATA nondeterministic (count/position assertions hold for all data)')


def kern_obl(kern, order=1, hn=8, split=0, hiprec=0, fixed=0, maxin=4, engine='cr32.c', tight=0, ntaps=4, timeout=1200, tiers=('quick', 'thorough')):
    defs = ['-DVF_KERN=%d' % kern, '-DVF_ORDER=%d' % order, '-DVF_HN=%d' % hn, '-DVF_SPLIT=%d' % split, '-DVF_HIPREC=%d' % hiprec,
            '-DVF_FIXED=%d' % fixed, '-DVF_MAXIN=%d' % maxin, '-DVF_NTAPS=%d' % ntaps, '-DVF_ENGINE_C="%s"' % engine]
    if tight:
        defs.append('-DVF_OIR_TIGHT')
    fn = {0: 'h%d' % hn, 1: 'vpoly0', 2: ('u100_%d' if fixed else 'vpoly%d') % order, 3: 'cubic_stage_fn', 4: 'U100_0' if fixed == 2 else 'u100_0'}[kern]
    name = 'kern_%s_%s%s%s%s_in%d' % (engine.replace('.c', ''), fn, '_split' if split else '', '_hiprec' if hiprec else '', '_oirtight' if tight else '', maxin)
    if engine.endswith('s.c'):
        defs.append('-DVF_SIMD_MODELS')
    return Obl(name=name, src='kern_step.c', defs=defs, unwind=13 if kern != 4 or fixed != 2 else 44, timeout=timeout, tiers=tiers, ndebug=False, mem_gb=20 if engine.endswith('s.c') else 10,
               desc='%s of %s: %s from any stage state in ENV' % (fn, engine, 'split lemma (a then b == a+b)' if split else 'one call'),
               bounds='samples consumed per call <= %d; step in [0.5, 8) (2 outputs per input at most); FIFO allocation 96 samples with the valid region at an edge; %s' % (
                   maxin, 'L <= 8, M <= 24' if kern in (1, 4) else 'all 64(+64)-bit clock values in range'),
               stubs=[KERN_STUB],
               funcs=['%s:%s' % (engine if engine != 'cr32.c' else 'cr-core.c', fn), 'fifo.h:fifo_reserve', 'fifo.h:fifo_read', 'fifo.h:fifo_trim_by'])


def kern_set(tier, split=False):
    """the kernels of the portable float engine; thorough adds the double engine"""
    o = []
    engines = ['cr32.c'] if tier == 'quick' else ['cr32.c', 'cr64.c']
    for e in engines:
        if not split:
            o += [kern_obl(0, hn=8, engine=e), kern_obl(0, hn=9, engine=e), kern_obl(1, engine=e), kern_obl(2, order=1, engine=e),
                  kern_obl(2, order=1, hiprec=1, maxin=2, engine=e), kern_obl(3, engine=e), kern_obl(4, fixed=1, engine=e),
                  kern_obl(2, order=1, tight=1, maxin=2, engine=e)]
            if tier == 'thorough':
                o += [kern_obl(0, hn=7, engine=e), kern_obl(2, order=2, engine=e), kern_obl(2, order=3, engine=e), kern_obl(2, order=2, hiprec=1, maxin=2, engine=e),
                      kern_obl(2, order=1, fixed=1, engine=e), kern_obl(2, order=2, fixed=1, engine=e), kern_obl(2, order=1, hiprec=1, maxin=4, engine=e, timeout=1500)]
                if e == 'cr64.c':
                    o += [kern_obl(0, hn=h, engine=e) for h in (10, 11, 12, 13)]
        else:
            o += [kern_obl(0, split=1, engine=e), kern_obl(1, split=1, maxin=2, engine=e), kern_obl(2, order=1, split=1, maxin=2, engine=e),
                  kern_obl(3, split=1, maxin=2, engine=e)]
            if tier == 'thorough':
                o += [kern_obl(2, order=2, split=1, maxin=2, engine=e), kern_obl(2, order=1, split=1, hiprec=1, maxin=1, engine=e, timeout=2400), kern_obl(4, fixed=1, split=1, maxin=2, engine=e)]
    return o


def qspec_obl():
    return Obl(name='quality_spec_recipes', src='qspec.c', unwind=3, timeout=300,
               desc='soxr_quality_spec for every recipe / flags word: phase bits change phase_response only; precision, pass-band, roll-off per quality',
               bounds='all 2^64 recipe words x flags < 2^31; lsx_inv_f_resp stubbed to the constant 0.42',
               stubs=['lsx_inv_f_resp returns the constant 0.42 and log10(2) its value (libm-based curve fit, not encodable)'], funcs=['soxr.c:soxr_quality_spec'])


def coefs_obl(order, core, mult='4.0', onehot=1000, nc=3, np=2, timeout=400, tiers=('quick', 'thorough')):
    return Obl(name='polycoefs_gain_o%d_core%d_m%s_v%d' % (order, core, mult.replace('.', 'p'), onehot), src='coefs_prep.c',
               defs=['-DVF_ORDER=%d' % order, '-DVF_CORE=%d' % core, '-DVF_MULT=%s' % mult, '-DVF_ONEHOT=%d' % onehot, '-DVF_NC=%d' % nc, '-DVF_NP=%d' % np],
               unwind=40, timeout=timeout, ndebug=False, tiers=tiers,
               desc='prepare_poly_fir_coefs (cr.c): table(gain m) == m * table(gain 1) entry by entry, interpolation order %d, core layout %d' % (order, core),
               bounds='%d taps x %d phases; basis input: one tap at a symbolic position with a symbolic integer value in +-%d, others 0 (the table is linear in the taps); gain %s' % (nc, np, onehot, mult),
               stubs=['table storage from a static pool (mem->calloc)'], funcs=['cr.c:prepare_poly_fir_coefs'])


VR_OPS = {0: 'slew_setup', 1: 'poly_fir_u_step', 2: 'poly_fir_d_step', 4: 'set_io_ratio_during_fade'}


def vr_obl(op, slew=None, difbits=20, timeout=400, tiers=('quick', 'thorough'), fade=None):
    defs = ['-DVF_OP=%d' % op, '-DVF_DIFBITS=%d' % difbits]
    name = 'vr_%s' % VR_OPS[op]
    if fade is not None:
        defs.append('-DVF_FADE=%d' % fade); name = name.replace('poly_fir_', 'poly_fir_fade_') + '_vol%d' % fade
    if slew is not None:
        defs.append('-DVF_SLEW=%s' % slew); name += '_len%s_d%d' % (str(slew).rstrip('u'), difbits)
    return Obl(name=name, src='vr_step.c', defs=defs, unwind=5, timeout=timeout, ndebug=False, extra=KISSAT if op in (0, 4) else [], tiers=tiers,
               desc='vr32.c %s' % VR_OPS[op],
               bounds=('current step and target below 2^44 (ratios up to 4096 in 32.32) with |target - step| < 2^%d, slew length == %s' % (difbits, slew)) if op == 0 else 'any 32.32 position/step, |step_step| < 2^24, <= 3 output frames, <= 8 input samples',
               stubs=['coefficient tables zero (data only)'],
               ignore_props=[r'set_step_step:\d+ arithmetic overflow on signed type conversion in \(signed int\)dif'],
               funcs=['vr32.c:set_step_step', 'vr32.c:set_step', 'vr32.c:poly_fir_u', 'vr32.c:poly_fir_d', 'vr32.c:poly_fir_fade_u', 'vr32.c:poly_fir_fade_d'])


VR_SWITCH_REPL = ['poly_fir_fade_d:vf_fade_kernel_none', 'poly_fir_fade_u:vf_fade_kernel_none', 'poly_fir_d:vf_kernel_none', 'poly_fir_u:vf_kernel_none',
                  'double_fir0:vf_fir_data_only', 'double_fir1:vf_fir_data_only', 'half_fir:vf_fir_data_only', 'fast_half_fir:vf_fir_data_only']


def vr_switch_obl(direction, timeout=600):
    """the stage-switch block of the real vr_process (stage 0 <-> stage -1), path-wise symbolic execution"""
    instr = []
    for r in VR_SWITCH_REPL:
        instr += ['--replace-calls', r]
    return Obl(name='vr_stage_switch_%s' % ('down', 'up', 'up_0_to_1', 'down_1_to_0')[direction], src='vr_step.c', defs=['-DVF_OP=3', '-DVF_DIR=%d' % direction], unwind=300, timeout=timeout,
               ndebug=False, instrument=instr, extra=['--paths', 'lifo'], slice=False, checks='full',
               desc='vr32.c vr_process: one real call in which the slewing ratio crosses the octave boundary %s (stage %s): after the switch the fade-in and '
                    'fade-out streams run at the same instantaneous ratio, slew at the same rate and read the same input instant; no undefined shift / overflow in the rescaling'
                    % (('downwards', '0 -> -1'), ('upwards', '-1 -> 0'), ('upwards at ratio 2', '0 -> 1'), ('downwards at ratio 2', '1 -> 0'))[direction],
               bounds='engine state constructed directly (one or two decimation stages; 272 buffered input samples); step anywhere in the octave being left, |step_step| < 2^20, '
                      'position < 8 samples, remaining slew length 1000; cbmc --paths lifo (every path decided by the SAT solver)',
               stubs=['goto-instrument --replace-calls: the four resampling kernels produce no frame in this call (the state asserted is the one the switch block leaves); '
                      'half-band FIR dot products return 0 (data only)', 'coefficient tables not initialised (data only)'],
               funcs=['vr32.c:vr_process', 'vr32.c:do_input_stage', 'vr32.c:enter_new_stage', 'fifo.h:fifo_reserve', 'fifo.h:fifo_read', 'fifo.h:fifo_trim_by'])


def vr_snap_obl(fading, timeout=600):
    instr = []
    for r in VR_SWITCH_REPL:
        instr += ['--replace-calls', r]
    return Obl(name='vr_slew_end_snap_%s' % ('during_fade' if fading else 'no_fade'), src='vr_step.c', defs=['-DVF_OP=6', '-DVF_FADING=%d' % fading], unwind=300, timeout=timeout,
               ndebug=False, instrument=instr, extra=['--paths', 'lifo'], slice=False, checks='full',
               desc='vr32.c vr_process: the call in which a slew ends (slew_len 0, target pending)%s: every live stream snaps to the target ratio in its own scale and stops slewing'
                    % (' while a stage cross-fade is running' if fading else ''),
               bounds='engine state constructed directly; steps and slew increments of both streams symbolic; target ratio in {.5, .75, .9375, .96875}; cbmc --paths lifo',
               stubs=['goto-instrument --replace-calls: the four resampling kernels produce no frame in this call; half-band FIR dot products data only'],
               funcs=['vr32.c:vr_process', 'vr32.c:set_step', 'vr32.c:enter_new_stage'])


def vr_tables_obl(path, kf=None, timeout=600, astages=None):
    """C10: VR static coefficient tables vs a second instance's gain"""
    instr = []
    for r in ['prepare_coefs:vf_prepare_coefs_gain', 'poly_fir1_u:vf_poly_fir1_u_dc', 'poly_fir1_d:vf_poly_fir1_d_dc', 'half_iir1:vf_half_iir1_dc',
              'double_fir0:vf_fir_data_only', 'double_fir1:vf_fir_data_only', 'half_fir:vf_fir_data_only', 'fast_half_fir:vf_fir_data_only']:
        instr += ['--replace-calls', r]
    astages = path if astages is None else astages
    return Obl(name='vr_tables_two_instances_%s_after_%s%s' % ('d' if path else 'u', 'd' if astages else 'u', '_probe' if kf else ''), src='vr_step.c', defs=['-DVF_OP=5', '-DVF_PATH=%d' % path, '-DVF_ASTAGES=%d' % astages], unwind=1100, timeout=timeout,
               ndebug=False, instrument=instr, extra=['--paths', 'lifo'], slice=False, native=False, kf=kf, mem_gb=20,
               desc='vr32.c: two engine instances initialised by the real vr_init with arbitrary gains A and B; one output frame of instance B through the real vr_process '
                    '(%s stream): B applies its own gain whatever A asked for (process-wide coefficient tables do not leak settings)' % ('decimating' if path else 'interpolating'),
               bounds='gains in [2^-40, 2^40] (symbolic doubles); one output frame; ratio mid-octave; cbmc --paths lifo',
               stubs=['goto-instrument --replace-calls: DC-gain semantics - prepare_coefs records the gain it bakes into a table, the per-sample kernels return that gain (unit DC input), '
                      'the half-band IIR pair sums its inputs; half-band FIR dot products data only', 'cos(): 1 at 0, else a constant (fills the cross-fade table: data not used here)',
                      "instance B's FIFOs replaced by statically allocated ones of the same content"],
               funcs=['vr32.c:vr_init', 'vr32.c:vr_process', 'vr32.c:poly_fir_u', 'vr32.c:poly_fir_d', 'vr32.c:half_iir', 'vr32.c:enter_new_stage'])


PLAN_OPS = {0: 'set_dft_length', 1: 'dft_stage_init', 2: 'init_validation', 3: 'halving_loop'}
PLAN_STUBS = ['log(): log2 bracket floor(log2 x) <= r < floor(log2 x)+1 (only used as log(a)/log(2))', 'lsx_design_lpf / lsx_fir_to_phase: any length <= 33 of the forced residue class, any peak position',
              'rdft_cb: set-up functions check the documented pffft precondition; transforms are no-ops']


def plan_obl(op, rdft_flags=None, kf=None, timeout=300):
    defs = ['-DVF_OP=%d' % op] + (['-DVF_RDFT_FLAGS=%s' % rdft_flags] if rdft_flags is not None else [])
    name = 'plan_%s%s%s' % (PLAN_OPS[op], '' if rdft_flags is None else '_flags%s' % rdft_flags, '_probe' if kf else '')
    if op == 3:
        return Obl(name=name, src='cr_plan.c', defs=defs, unwind=1, unwindset=['_soxr_init.0:60'], timeout=timeout,
                   witness_re=r'cr\.c:_soxr_init:\d+ unwinding assertion loop 1$',
                   ignore_props=[r'^(?!cr\.c:_soxr_init:\d+ unwinding assertion loop 0$).*unwinding assertion loop', r'VF_WITNESS'],
                   desc='_soxr_init (cr.c): the loop that counts the 2:1 stages terminates for every finite ratio in [1, 1e15] and performs no out-of-range float->int conversion',
                   bounds='io_ratio in [1, 1e15], HQ spec; 60 iterations of that loop (2^50 > 1e15); the rest of the planning loop is cut (bound 1) - its unwinding assertions are not part of the claim; reachability witness: the cut of the following loop',
                   stubs=PLAN_STUBS, funcs=['cr.c:_soxr_init'])
    return Obl(name=name, src='cr_plan.c', defs=defs, unwind=35 if op != 2 else 1, unwinding_assertions=(op != 2), timeout=timeout, kf=kf,
               desc={0: 'set_dft_length (cr.c) for every filter length <= 2^20 and every documented log2_min/large_dft_size',
                     1: 'dft_stage_init (cr.c): DFT-stage envelope established for every L <= 256, M <= 4, phase, filter length / peak position the design may return',
                     2: '_soxr_init (cr.c): every out-of-range precision / phase / transition band / ratio is rejected before the rate object is touched (NULL rate object: acceptance would be a reported NULL dereference)'}[op],
               bounds={0: 'num_taps 1..2^20, min 8..15, large 8..20', 1: 'L 1..256, M 1..4, filter length <= 33, log2 DFT sizes 8..12', 2: 'all doubles except NaN; paths after the validation are cut (unwind 1, no unwinding assertion)'}[op],
               stubs=PLAN_STUBS, funcs=['cr.c:set_dft_length', 'cr.c:dft_stage_init', 'cr.c:_soxr_init'],
               ignore_props=[r'_soxr_init:\d+ dereference failure: pointer NULL'] if False else [])


def kern_eq_obl(pair):
    names = {0: ('u100_0', 'vpoly0'), 1: ('u100_1', 'vpoly1'), 2: ('u100_2', 'vpoly2'), 3: ('U100_0', 'vpoly0')}[pair]
    return Obl(native_srcs=['native_weak.c'], name='kern_eq_%s_vs_%s' % names, src='kern_eq.c', defs=['-DVF_PAIR=%d' % pair], unwind=66, timeout=300,
               desc='fixed-length portable kernel %s vs the general kernel %s on the poly_firs[] row that names it: bit-identical outputs, consumption and clock' % names,
               bounds='CONCRETE probe states (8 clock fractions separating every PHASE_BITS value, index-revealing table, distinct sample weights): decided by symbolic execution (constant propagation) - no quantification; a symbolic table/clock exceeded 10 GB',
               stubs=['generated table vf_coefs[i] == i'], funcs=['cr-core.c:%s' % names[0], 'cr-core.c:%s' % names[1], 'cr-core.c:poly_firs'])


def kern_poly_obl(k, engine='cr64.c', n=10, pb=6):
    return Obl(native_srcs=['native_weak.c'], name='kern_poly_taps_%s_vpoly%d_n%d_pb%d' % (engine.replace('.c', ''), k, n, pb), src='kern_poly.c',
               defs=['-DVF_K=%d' % k, '-DVF_N=%d' % n, '-DVF_PB=%d' % pb, '-DVF_ENGINE_C="%s"' % engine], unwind=max(n, 8) + 4, timeout=300,
               desc='interpolated poly-phase kernel vpoly%d of %s: one-hot window per tap, index-revealing table: the output equals a + b x + c x^2 + d x^3 of the entries the table writer stores for (phase, tap, power)' % (k, engine),
               bounds='CONCRETE probes (4 clock fractions x %d taps, exactly representable arithmetic): decided by symbolic execution (constant propagation) - no quantification' % n,
               stubs=['generated table vf_coefs[i] == i'], funcs=['cr-core.c:vpoly%d' % k, 'poly-fir.h', 'cr.h:coef'])


def init_qq_obl(timeout=1500, may_fail=False, kf=None):
    return Obl(name='init_quick_recipe' + ('_allocfail' if may_fail else '') + ('_probe' if kf else ''), src='init_qq.c', unwind=4, timeout=timeout, extra=KISSAT,
               defs=['-DVF_MAY_FAIL'] if may_fail else [], malloc_may_fail=may_fail, kf=kf,
               desc='the real _soxr_init (cr.c) for the quick recipe with symbolic io_ratio and gain: the cubic stage it builds is inside ENV(cubic) (progress, context, pre-load, gain once)',
               bounds='precision 0 (no planning loop), io_ratio in [1e-6, 1e9], gain in (0, 1e6), any runtime flags; higher precisions are not symbolically executable',
               stubs=['stage array calloc: typed exactly sized object', 'design functions unreachable on this path (asserted)'],
               funcs=['cr.c:_soxr_init', 'cr.c:_soxr_close', 'fifo.h:fifo_create', 'fifo.h:fifo_reserve'])


def dft_obl(L=1, M=1, dbl=0, simd=0, dftlen=32, timeout=1500, tiers=('quick', 'thorough'), fdm=0, bigocc=0):
    return Obl(name='dft_stage_L%d_M%d%s_%s%s_n%d%s' % (L, M, 'fd' if fdm else '', 'd' if dbl else 'f', 's' if simd else '', dftlen, '_bigfifo' if bigocc else ''), src='dft_step.c', checks='full',
               defs=(['-DVF_BIGOCC'] if bigocc else []) + ['-DVF_FDM=%d' % fdm, '-DVF_L=%d' % L, '-DVF_M=%d' % M, '-DVF_DBL=%d' % dbl, '-DVF_SIMD=%d' % simd, '-DVF_DFTLEN=%d' % dftlen], unwind=dftlen + 4,
               timeout=timeout, tiers=tiers, ndebug=False,
               desc='dft_stage_fn (cr.c): one call from any stage state in ENV(dft): block bookkeeping, phase carry (at / remM), counts, memory safety; L=%d M=%d %s%s' % (L, M, 'double' if dbl else 'float', ', SIMD-style back end' if simd else ''),
               bounds='dft_length == %d, L == %d, M == %d constant; filter length 1..dft_length, phases, FIFO fill symbolic' % (dftlen, L, M),
               stubs=['rdft_cb transforms are no-ops (data only)', 'libc div() model'], funcs=['cr.c:dft_stage_fn', 'fifo.h:fifo_reserve', 'fifo.h:fifo_read', 'fifo.h:fifo_trim_by'])


def dft_set(tier):
    o = [dft_obl(1, 1), dft_obl(1, 3), dft_obl(1, 3, dbl=1), dft_obl(3, 2), dft_obl(2, 1, simd=1), dft_obl(4, 1, dbl=1), dft_obl(3, 2, fdm=1), dft_obl(1, 4, fdm=1, dbl=1, simd=1)]
    if tier == 'thorough':
        o += [dft_obl(1, 2, dbl=1, simd=1), dft_obl(3, 1, dbl=1), dft_obl(2, 3), dft_obl(8, 1), dft_obl(1, 1, dbl=1, dftlen=64), dft_obl(1, 5, dbl=1), dft_obl(3, 4, dbl=1, simd=1)]
    return o


def dft_bigfifo_set():
    """dft_stage_fn with an input FIFO holding up to 2^26 samples (extreme up-sampling in front): the block is still taken, no int overflow"""
    return [dft_obl(64, 1, dbl=1, dftlen=128, bigocc=1), dft_obl(16, 1, simd=1, dftlen=64, bigocc=1), dft_obl(3, 2, bigocc=1)]


def fifo_obls():
    o = [Obl(name='fifo_reserve_shape%d' % sh, src='fifo_lemma.c', defs=['-DVF_OP=0', '-DVF_SHAPE=%d' % sh], unwind=66, timeout=300, ndebug=False,
             desc='fifo.h fifo_reserve: %s; buffered bytes preserved (symbolic data, symbolic index), invariant, pointer and size of the reserved region' % d,
             bounds='allocation 64 bytes, FIFO_MIN lowered to 16 (includer-definable), one concrete offset shape per obligation; data and inspected index symbolic',
             funcs=['fifo.h:fifo_reserve', 'fifo.h:fifo_occupancy', 'fifo.h:fifo_clear'])
         for sh, d in enumerate(['fits', 'compaction (memmove)', 'growth (realloc)', 'compaction then growth'])]
    o.append(Obl(name='fifo_read_trim', src='fifo_lemma.c', defs=['-DVF_OP=1'], unwind=66, timeout=300, ndebug=False,
                 desc='fifo.h fifo_read / fifo_trim_by from any state: refused when more than buffered, else oldest n items once; trim removes the newest',
                 bounds='offsets <= 16 items symbolic, item size 4 or 8', funcs=['fifo.h:fifo_read', 'fifo.h:fifo_trim_by', 'fifo.h:fifo_occupancy']))
    return o


def kern_imp_obl(hn, engine='cr32.c'):
    defs = ['-DVF_HN=%d' % hn, '-DVF_ENGINE_C="%s"' % engine] + (['-DVF_SIMD_MODELS'] if engine.endswith('s.c') else [])
    return Obl(native_srcs=['native_weak.c'], name='kern_impulse_%s_h%d' % (engine.replace('.c', ''), hn), src='kern_imp.c', defs=defs, unwind=70, timeout=300, unwindset=['vf_harness.1:9'],
               desc='half-band kernel h%d of %s on a one-hot input window at a symbolic position: the output is exactly the table coefficient the filter definition pairs with that sample' % (hn, engine),
               bounds='all %d window positions (symbolic); other samples +0.0 (partial sums exact)' % (4 * hn + 8),
               stubs=['SSE shuffles / scalar-lane ops modelled as exact lane operations'] if engine.endswith('s.c') else [],
               funcs=['cr-core.c:h%d' % hn, 'half-coefs.h:half_fir_coefs_%d' % hn, 'half-fir.h'])


def kern_imp_set(tier):
    o = [kern_imp_obl(7), kern_imp_obl(8), kern_imp_obl(9), kern_imp_obl(8, 'cr32s.c'), kern_imp_obl(9, 'cr32s.c')]
    o += [kern_imp_obl(h, 'cr64.c') for h in (7, 8, 9, 10, 11, 12, 13)]
    return o


def coefs_cont_obl(order, core, timeout=400):
    return Obl(name='polycoefs_continuity_o%d_core%d' % (order, core), src='coefs_prep.c',
               defs=['-DVF_ORDER=%d' % order, '-DVF_CORE=%d' % core, '-DVF_NC=3', '-DVF_NP=3', '-DVF_ONEHOT=120', '-DVF_CONT=1'], unwind=40, timeout=timeout, ndebug=False,
               desc='prepare_poly_fir_coefs (cr.c): the order-%d coefficient polynomial of every (phase, tap) entry at x = 1 equals the next phase\'s prototype sample; core layout %d' % (order, core),
               bounds='3 taps x 3 phases; basis input: one tap at a symbolic position with a symbolic value (multiple of 12, |v| <= 120), others 0 (the table is linear in the taps)',
               stubs=['table storage from a static pool (mem->calloc)'], funcs=['cr.c:prepare_poly_fir_coefs'])
