from vf.runner import Obl
"""shared pieces of the property modules"""
X87 = ['-Dsoxr_rint_included', '-include', 'x87_model.h']
RINT_KERNELS = ['lsx_rint%d_clip%s%s%s' % (b, two, d, f) for b in (32, 16) for two in ('', '_2')
                for d in (('', '_dither') if b == 16 else ('',)) for f in ('', '_f')]


def rint_blocks(n):
    """unwindset entries for the 16-sample block loops of the 12 conversion kernels: n = max block iterations + 1"""
    return ['%s.0:%d' % (k, n) for k in RINT_KERNELS]


X87_STUB = 'x87 FIST/FNSTSW/FLDENV inline asm of rint.h replaced by harness/include/x87_model.h (validated natively against the asm)'
AE_STUB = 'abstract engine behind control_block (harness/include/abs_engine.h): exact-size buffers, any per-round supply, lock-step channels'
ENV_STUB = 'getenv() returns NULL (no SOXR_* overrides) unless the harness says otherwise; time() arbitrary'


OPS = {0: 'push', 1: 'flush', 2: 'pull', 4: 'query'}

def api_step(op, it, ot, kind, ch, cap=3):
    return Obl(name='api_%s_i%d_o%d_k%d_ch%d' % (OPS[op], it, ot, kind, ch), src='api_step.c',
               extra_srcs=['src/data-io.c', 'x87_glue.c'],
               defs=['-DVF_OP=%d' % op, '-DVF_ITYPE=%d' % it, '-DVF_OTYPE=%d' % ot, '-DVF_KIND=%d' % kind,
                     '-DVF_CH=%d' % ch, '-DVF_CAP=%d' % cap, '-DAE_FIXED_BUFS=%d' % (cap + 1), '-DVF_DATAIO_MEMCPY', '-DVF_X87_ABSTRACT'] ,
               ccflags=X87, unwind=cap + 2, unwindset=rint_blocks(1) + ['soxr_output.0:14', 'fixed_alloc.0:%d' % (cap * 16 + 2), 'check_canaries.0:%d' % (cap * 16 + 2), 'check_canaries.1:8', 'vf_word_memcpy.0:%d' % (cap * 2 + 2)], timeout=300,
               desc='one %s call, itype %d otype %d (bit 2 = split), engine kind %d, %d channel(s)' % (OPS[op], it, ot, kind, ch),
               bounds='frames<=%d per call, input-fn calls<=4, engine rounds<=6' % cap,
               stubs=[AE_STUB, X87_STUB, ENV_STUB],
               funcs=['soxr.c:soxr_process', 'soxr.c:soxr_output', 'soxr.c:soxr_input', 'soxr.c:soxr_output_no_callback'])

