from vf.runner import Obl
from vf.props.common import *
EXPLANATION = ('cbmc over the real data-io.c/rint-clip.h kernels with the x87 FIST model: one sample with all 32/64 bits '
               'symbolic per obligation, oracle = round-to-nearest + saturation + clip count, derived from the property text.')
ASSUMPTIONS = ['x87 default control word (round to nearest even, exceptions masked)']

def conv(dbl, ot, ch, n, k, c=0, ovf=-1, dither=0, tiers=('quick', 'thorough')):
    name = 'conv_%s_%s_ch%d_n%d_k%d_c%d%s%s' % ('d' if dbl else 'f', 'i32' if ot == 2 else 'i16', ch, n, k, c,
                                               '_ovf%d' % ovf if ovf >= 0 else '', ['', '_dith', '_dithsym'][dither])
    return Obl(name=name, src='c11_conv.c', extra_srcs=['src/data-io.c', 'x87_glue.c'],
               defs=['-DVF_DBL=%d' % dbl, '-DVF_OT=%d' % ot, '-DVF_CH=%d' % ch, '-DVF_N=%d' % n, '-DVF_K=%d' % k,
                     '-DVF_C=%d' % c, '-DVF_OVF=%d' % ovf, '-DVF_DITHER=%d' % dither],
               ccflags=X87, unwind=max(n, 17) + 2, timeout=400, tiers=tiers,
               desc='%s engine -> %s, %d channel(s), %d frames, symbolic sample at frame %d ch %d%s%s' % (
                   'double' if dbl else 'float', 'int32' if ot == 2 else 'int16', ch, n, k, c,
                   ', concrete out-of-range sample at frame %d' % ovf if ovf >= 0 else '', ', dither' if dither else ''),
               bounds='n=%d frames; every bit pattern of the symbolic sample' % n, stubs=[X87_STUB],
               funcs=['data-io.c:_soxr_interleave' + ('' if dbl else '_f')])

def x87_validate(workdir):
    import os, subprocess
    from vf import runner
    exe = os.path.join(workdir, 'x87_validate')
    r = subprocess.run(['gcc', '-O1', '-o', exe, '-I' + os.path.join(workdir, 'gen'), '-I' + runner.REPO + '/src',
                        os.path.join(runner.HARNESS, 'x87_validate.c'), '-lm'], capture_output=True, text=True)
    if r.returncode:
        return {'status': 'broken', 'detail': 'x87 validation build failed: ' + r.stderr[-600:]}
    r = subprocess.run([exe, os.environ.get('VERIF_SEED', '0')], capture_output=True, text=True)
    if r.returncode:
        return {'status': 'broken', 'detail': 'x87 model disagrees with the asm of the current rint.h (stub invalid): ' + r.stdout[-600:]}
    return {'status': 'pass', 'witness_ok': True, 'extra': r.stdout.strip(), 'queries': 0}


def deint(dbl, it, ch):
    return Obl(name='deint_%s_t%d_ch%d' % ('d' if dbl else 'f', it, ch), src='c11_deint.c', extra_srcs=['src/data-io.c', 'x87_glue.c'],
               defs=['-DVF_DBL=%d' % dbl, '-DVF_IT=%d' % it, '-DVF_CH=%d' % ch], ccflags=X87, unwind=6, timeout=300,
               desc='deinterleave into %s engine from datatype %d, %d channel(s), 2 frames, all bit patterns' % ('double' if dbl else 'float', it, ch),
               bounds='2 frames x %d channels, every bit pattern' % ch, funcs=['data-io.c:_soxr_deinterleave' + ('' if dbl else '_f')])


def obligations(tier):
    obls = [Obl(name='x87_model_vs_asm', py=x87_validate, desc='native: x87 model == real rint.h asm on boundary + 3e6 pseudo-random values (stub validation)')]
    for dbl in (0, 1):
        for it in range(4):
            for ch in (1, 2):
                obls.append(deint(dbl, it, ch))
    for dbl in (0, 1):
        for ot in (2, 3):
            for ch in (1, 2):
                quick_pos = [(17, 0, -1), (17, 16, -1), (17, 0, 5), (17, 15, 3), (2, 1, -1), (15, 14, -1), (31, 30, -1)]      # 15 / 31: one frame short of a whole unrolled block of 16
                thor_pos = quick_pos + [(17, 1, -1), (17, 15, -1), (17, 7, 0), (17, 0, 16), (17, 16, 2), (33, 16, 20), (33, 31, 17), (33, 32, -1)]
                for (n, k, ovf) in (quick_pos if tier == 'quick' else thor_pos):
                    obls.append(conv(dbl, ot, ch, n, k, c=(ch - 1), ovf=ovf))
                if ot == 3:
                    obls.append(conv(dbl, ot, ch, 17, 0, c=0, ovf=-1, dither=1))
                    obls.append(conv(dbl, ot, ch, 17, 16, c=ch - 1, ovf=4, dither=1))
                    obls.append(conv(dbl, ot, ch, 2, 1, c=0, dither=2))
    obls += [create_obl(3, timeout=300), create_obl(2, 2, 2)]      # io_spec.scale = user scale x full-scale ratio, applied once (also across soxr_clear)
    return obls
