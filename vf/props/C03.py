from vf.props.common import *
from vf import planenv
EXPLANATION = ('cbmc over the real accounting code of cr.c (_soxr_input/_process/stage_process/_output/_flush) with abstract stage '
               'kernels: inductive step from ANY state satisfying the invariant samples_in == accepted, samples_out == delivered '
               '(- owed after end-of-input): end-of-input fixes the total at round-half-up(N/io_ratio), never more than owed is '
               'delivered, a request is filled until the total is reached, then 0 for ever; input after end-of-input is refused. '
               'L1: soxr_process(in == NULL / ~ilen) latches end-of-input and reaches every channel engine before output is drawn.')
ASSUMPTIONS = ['owed - delivered < 2^31 and olen < 2^31 (the engine FIFOs are int-sized; beyond that is outside the claim)',
               'the IEEE quotient (double)N / io_ratio stands for N*orate/irate (2^-53 relative)',
               'stage kernels meet the progress contract (L3 obligations)']

def obligations(tier):
    obls = [drv(0), drv(1, ns=0), drv(1, ns=1), drv(1, ns=1, item=8), drv(0, item=8)]
    for r in ('2.0', '4.0', '0.5', '0.25'):
        obls.append(drv(2, ratio=r, solver=KISSAT))
    obls.append(drv(2, nbits=12, ratio_bits=8, solver=KISSAT, timeout=600, tiers=('thorough',)))
    obls.append(drv(2, nbits=16, ratio_bits=8, solver=KISSAT, timeout=1200, tiers=('thorough',)))
    for (it, ot) in [(0, 0), (5, 6), (3, 7), (6, 1)]:
        for kind in (2, 3):
            obls.append(api_step(1, it, ot, kind, 2))
    for (it, ot) in [(0, 1), (3, 2), (6, 3)]:       # pull: end-of-input from the input function must start the drain in the same call
        for kind in (2, 3):
            obls.append(api_step(2, it, ot, kind, 2))
    obls += dft_set(tier)      # the DFT stage: block bookkeeping and phase carry of the real dft_stage_fn
    obls += dft_bigfifo_set()      # ... with a very full input FIFO (extreme up-sampling ratios)
    obls += planenv.obls(tier)      # ENV-(b): plans of the real _soxr_init inside the envelope the kernel obligations assume (enumeration, labelled)
    obls += fifo_obls()      # fifo.h: reserve / compaction / growth / read / trim
    return obls
