"""configuration lists of the E4 obligations (finite, stated; the frequency axis is the symbolic one)"""
from vf.e4 import Cfg, DP, e2e_obl, stage_obl, mirror_check, obl, half_band_obls

LQ, MQ, HQ, VHQ = 1, 2, 4, 6
INTERMEDIATE, MINIMUM = 0x10, 0x30
NOSIMD32 = {'SOXR_USE_SIMD32': '0'}
NOSIMD64 = {'SOXR_USE_SIMD64': '0'}


def e2e_cfgs(tier):
    c = [Cfg(1, 2, LQ, DP, e2e=1), Cfg(1, 2, MQ, DP, e2e=1), Cfg(1, 2, HQ, DP, e2e=1), Cfg(2, 1, LQ, DP, e2e=1), Cfg(3, 2, LQ, DP, e2e=1),
         Cfg(2, 3, LQ, DP, e2e=1), Cfg(1, 3, LQ, DP, e2e=1), Cfg(4, 1, LQ, DP, e2e=1),
         Cfg(1, 2, LQ, 0, e2e=1), Cfg(1, 2, LQ, 0, e2e=1, env=NOSIMD32), Cfg(1, 2, LQ, DP, e2e=1, env=NOSIMD64), Cfg(2, 1, LQ, 0, e2e=1, env=NOSIMD32),
         # explicit stop-band above the output Nyquist frequency (aliasing allowed into the transition band only): decimating DFT stage without the F-domain shortcut
         Cfg(2, 1, LQ, DP, e2e=1, passband=0.9, stopband=1.25, name='2_1_r1_f10_pass0.9_stop1.25')]
    if tier == 'thorough':
        c += [Cfg(1, 2, VHQ, 0, e2e=1), Cfg(1, 4, LQ, DP, e2e=1), Cfg(1, 4, HQ, DP, e2e=1), Cfg(3, 1, LQ, DP, e2e=1),      # (2:1 MQ: stop-band query without verdict in 1800 s - not registered)
             
              Cfg(3, 2, MQ, DP, e2e=1), Cfg(2, 3, MQ, DP, e2e=1), Cfg(4, 3, LQ, DP, e2e=1), Cfg(3, 4, LQ, DP, e2e=1), Cfg(8, 1, LQ, DP, e2e=1),
              Cfg(1, 2, 3, DP, e2e=1), Cfg(1, 2, 5, 0, e2e=1), Cfg(1, 2, MQ, 0, e2e=1), Cfg(1, 2, MQ, 0, e2e=1, env=NOSIMD32)]   # (float engines at 20 bits: FFT rounding noise exceeds 2^-20 of the L1 budget - not provable, DESIGN I.2)
    return c


def e2e_phase_cfgs(tier):
    c = [Cfg(1, 2, LQ | INTERMEDIATE, DP, e2e=1), Cfg(1, 2, LQ | MINIMUM, DP, e2e=1), Cfg(2, 1, LQ | MINIMUM, DP, e2e=1), Cfg(1, 2, LQ, DP, phase=75, e2e=1)]
    if tier == 'thorough':
        c += [Cfg(1, 2, LQ, DP, phase=p, e2e=1) for p in (10, 40, 60, 100)] + [Cfg(3, 2, LQ | MINIMUM, DP, e2e=1), Cfg(1, 2, MQ | INTERMEDIATE, DP, e2e=1)]
    return c


def stage_cfgs(tier):
    c = [Cfg(44100, 48000, HQ), Cfg(48000, 44100, MQ), Cfg(1, 60, HQ), Cfg(1, 125, HQ), Cfg(16, 1, HQ), Cfg(44100, 192000, LQ), Cfg(192000, 44100, HQ),
         Cfg(1, 31, MQ), Cfg(8000, 480000, MQ),
         # rational arbitrary-ratio stages with a short poly-phase prototype (decided like the DFT-stage filters), both engine families
         Cfg(4, 5, MQ, 0, env=NOSIMD32), Cfg(4, 5, MQ, 0), Cfg(4, 5, LQ, 0, env=NOSIMD32), Cfg(5, 6, MQ, DP), Cfg(5, 7, HQ, 0),
         # down-sampling ratios inside (1.5, 2) and (3, 4) that are not small rationals: post stage decimates by 2 after an arbitrary-ratio stage
         Cfg(88200, 48000, MQ), Cfg(50000, 30000, LQ), Cfg(176400, 48000, MQ)]
    if tier == 'thorough':
        c += [Cfg(5, 4, MQ, 0, env=NOSIMD32), Cfg(4, 5, HQ, 0), Cfg(7, 5, MQ, 0, env=NOSIMD32), Cfg(48000, 44100, VHQ), Cfg(1, 125, VHQ), Cfg(1, 250, HQ), Cfg(44100, 65537, HQ), Cfg(65537, 44100, VHQ), Cfg(1, 57, VHQ), Cfg(1, 110, HQ),
              Cfg(1, 500, MQ), Cfg(1, 63, HQ), Cfg(7, 1, HQ), Cfg(1, 2, 7)]      # (96000->8000 24-bit: 733-tap stop-band query without verdict in 1800 s - not registered)
    return c


def stage_phase_cfgs(tier):
    c = [Cfg(1, 2, LQ, phase=40), Cfg(2, 1, LQ, phase=25), Cfg(1, 2, LQ, phase=60), Cfg(1, 2, LQ, phase=0), Cfg(1, 2, LQ, phase=100), Cfg(3, 2, LQ, phase=35)]
    if tier == 'thorough':
        # intermediate-phase (non-symmetric) filters above ~600 taps need the |H|^2 query of degree 2n: no verdict in 1800 s (measured: 1:2 HQ phase 25..75,
        # 1:3 / 2:1 VHQ, 44.1k->48k HQ) - not registered; minimum / maximum phase HQ (phase 0, 100) and the MQ filters are decided
        c += [Cfg(1, 2, MQ, phase=40), Cfg(2, 1, MQ, phase=25), Cfg(1, 2, HQ, phase=0), Cfg(1, 2, HQ, phase=100)]
    return c


def align_cfgs(tier):
    """rational plans whose prototype is too long for the polynomial query: alignment/symmetry and gain only (exact arithmetic, no band query)"""
    c = [Cfg(48000, 88200, HQ, DP, e2e=1, i0=600), Cfg(32000, 44100, MQ, DP, e2e=1, i0=600), Cfg(44100, 48000, HQ, DP, e2e=1, i0=600),
         Cfg(96000, 50000, HQ, DP, e2e=1, i0=600), Cfg(40000, 48000, HQ, 0, e2e=1, i0=600), Cfg(48000, 44100, LQ, DP, e2e=1, i0=600)]
    if tier == 'thorough':
        c += [Cfg(48000, 56000, MQ, DP, e2e=1, i0=600), Cfg(8000, 11025, HQ, DP, e2e=1, i0=600), Cfg(44100, 96000, VHQ, 0, e2e=1, i0=800),
              Cfg(30000, 50000, HQ, 0, e2e=1, i0=600, env=NOSIMD32), Cfg(1, 64, HQ, DP, e2e=1, i0=300), Cfg(1, 5, MQ, DP, e2e=1, i0=400)]
    return c


def mirror_obls(tier):
    pairs = [(25, 75), (0, 100), (40, 60)] if tier == 'quick' else [(25, 75), (0, 100), (40, 60), (10, 90), (49, 51), (33, 67)]
    out = []
    for p, q in pairs:
        a, b = Cfg(1, 2, MQ, phase=p), Cfg(1, 2, MQ, phase=q)
        out.append(obl('mirror_1_2_MQ_%d_%d' % (p, q), lambda wd, a=a, b=b, tier=tier: mirror_check(wd, a, b, tier),
                       'phase %d and %d: designed taps are exact time-mirrors with mirrored peak position' % (p, q), '1:2 MQ'))
    return out
