from vf.props.common import *
from vf.props.e4cfg import *
LEVEL = 'other'
JOBS = 6      # each obligation runs a portfolio of z3 processes on big-integer polynomials: memory-bound, keep the machine below saturation
EXPLANATION = ('Hybrid (see C02): taps by concrete execution of the real library, deciding step by z3 over the frequency continuum. '
               'For every phase setting of the list the phase-transformed filters (lsx_fir_to_phase output, intercepted) and the whole-conversion '
               'prototypes meet the SAME pass-band and stop-band bounds as linear phase (|H|^2 polynomial from the autocorrelation); settings p and '
               '100-p are exact time-mirrors with mirrored peak position; linear phase is exactly symmetric about the input instant; '
               'cbmc: soxr_quality_spec maps the recipe phase bits to 50/25/0 and nothing else depends on them (all 2^64 recipe words).')
ASSUMPTIONS = ['configuration list as stated; prototypes above the tap limit are not decided',
               'output length and rate are independent of the phase setting: the accounting lemmas of C03/C15 do not read it (cr.c driver) - not re-proved here']

def obligations(tier):
    obls = [qspec_obl()]
    obls += [e2e_obl(c, ('pass', 'stop', 'gain'), tier) for c in e2e_phase_cfgs(tier)]
    obls += [stage_obl(c, ('pass', 'stop'), tier) for c in stage_phase_cfgs(tier)]
    obls += mirror_obls(tier)
    obls += [e2e_obl(c, ('sym',), tier) for c in e2e_cfgs(tier)[:6]]
    # power-of-two up-sampling stages with a non-linear phase: known finding (see known_findings.txt); the neighbouring
    # configurations (1:4, 1:8 minimum phase; 1:64 linear phase) are ordinary obligations
    obls.append(e2e_obl(Cfg(1, 64, LQ | MINIMUM, DP, e2e=1, i0=300), ('gain',), tier, kf='KF_C14_POW2_NONLINEAR'))
    obls += [e2e_obl(Cfg(1, 4, LQ | MINIMUM, DP, e2e=1), ('gain',), tier), e2e_obl(Cfg(1, 8, LQ | MINIMUM, DP, e2e=1, i0=600), ('gain',), tier),
             e2e_obl(Cfg(1, 64, LQ, DP, e2e=1, i0=300), ('gain', 'sym'), tier)]
    obls += [plan_obl(1)]      # planner pieces of cr.c (set_dft_length / dft_stage_init / validation prefix)
    return obls
