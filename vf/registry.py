CBMC = 'bounded model checking of the real C translation units (goto-cc + cbmc 6.11, SAT), symbolic inputs, unwinding assertions, vacuity witness, native ASan/UBSan replay of counterexamples'
CLAIMED = {}
NOT_APPLICABLE = {}


def claim(pid, text, note, technique=CBMC, ref='DESIGN.md section 5', category='model_checking'):
    CLAIMED[pid] = dict(text=text, note=note, technique=technique, ref=ref, category=category)
    NOT_APPLICABLE.pop(pid, None)


def na(pid, reason):
    if pid not in CLAIMED:
        NOT_APPLICABLE[pid] = reason
