"""ENV-(b): the plans the real _soxr_init builds (native, harness/plan_dump.c) against the stage envelope ENV(kind) that the
solver-checked kernel obligations assume.  Enumeration over a stated configuration list - NOT a solver verdict - labelled so."""
import json, os, subprocess, concurrent.futures as cf
from fractions import Fraction
from vf import runner, e4


import threading
_build_lock = threading.Lock()


def build_dump(workdir):
    with _build_lock:
        return _build_dump(workdir)


def _build_dump(workdir):
    exe = os.path.join(workdir, 'plan_dump')
    if os.path.exists(exe):
        return exe
    with e4._lock:
        e4.build_capture(workdir)          # compiles the library objects
    od = os.path.join(workdir, 'e4_objs')
    objs = [os.path.join(od, s.replace('.c', '.o')) for s in runner.LIB_SOURCES if s != 'soxr.c']
    r = subprocess.run(['gcc', '-O1', '-w', '-DSOXR_LIB', '-DNDEBUG', '-std=gnu89', '-I' + os.path.join(workdir, 'gen'), '-I' + runner.REPO + '/src',
                        '-o', exe + '.tmp', os.path.join(runner.HARNESS, 'plan_dump.c')] + objs + ['-lm'], capture_output=True, text=True)
    if r.returncode:
        raise RuntimeError('plan dumper build failed: ' + r.stderr[-600:])
    os.replace(exe + '.tmp', exe)
    return exe


RATIOS = [(1, 2), (2, 1), (1, 3), (3, 1), (2, 3), (3, 2), (1, 4), (4, 1), (3, 4), (4, 3), (1, 5), (5, 1), (1, 8), (8, 1), (1, 16), (16, 1), (1, 31), (1, 60), (1, 64), (1, 125), (100, 1),
          (44100, 48000), (48000, 44100), (44100, 96000), (96000, 44100), (44100, 192000), (192000, 44100), (48000, 88200), (88200, 48000), (32000, 44100), (96000, 50000),
          (40000, 48000), (44100, 65537), (65537, 44100), (44100, 48001), (48000, 23999), (96000, 55001), (44100, 22051), (8000, 44101), (16000, 44101), (1, 1),
          (1000, 999), (999, 1000), (10000, 1), (1, 1000), (7, 5), (5, 7), (11, 1), (1, 11), (512, 1), (1024, 1), (2048, 1), (4096, 1), (100000, 1), (1, 4096), (44100, 48223), (48223, 44100), (44100, 48002), (96000, 44103), (22051, 96000)]


def cfg_lines(tier):
    lines = []
    recipes = [0, 1, 2, 3, 4, 5, 6, 7] if tier == 'thorough' else [0, 1, 2, 4, 6]
    for (a, b) in RATIOS:
        for rc in recipes:
            for qflags in (0, 16):
                lines.append('%d %d %d %d -1 -1 -1 0 10 17 1' % (a, b, rc, qflags))
        lines.append('%d %d 4 8 -1 -1 -1 0 10 17 1' % (a, b))        # hi-prec clock
        lines.append('%d %d 6 8 -1 -1 -1 0 10 17 1' % (a, b))        # hi-prec clock, VHQ
        lines.append('%d %d 4 0 -1 -1 -1 0 8 8 1' % (a, b))          # small DFT sizes
        lines.append('%d %d 6 0 -1 -1 -1 2 10 17 0.5' % (a, b))      # coefficient interpolation LOW, gain 0.5
        lines.append('%d %d 4 0 -1 -1 -1 3 15 20 1' % (a, b))        # interpolation HIGH, large DFT
        lines.append('%d %d 4 0 15 -1 -1 8 10 17 1' % (a, b))        # precision 15, no small-integer optimisation
        if tier == 'thorough':
            lines.append('%d %d 4 0 33 -1 -1 0 12 9 1' % (a, b))
            lines.append('%d %d 1 0 -1 25 -1 0 10 17 1' % (a, b))
    return lines


def kind(s):
    if s['block_len'] > 0:
        return 'dft'
    if s['has_coefs']:
        return 'half'
    if s['n'] > 0:
        return 'poly'
    if s['step'] != 0:
        return 'cubic'
    return 'none'


def pow2(x):
    return x >= 2 and (x & (x - 1)) == 0


def check_plan(d, bad):
    cfg = d['cfg']
    st = d.get('stages')
    if st is None:
        return 0
    ns = d['num_stages']
    lin = d['phase'] == 50
    n = 0
    for s in st[:ns]:
        k = kind(s); n += 1

        def req(c, msg):
            if not c:
                bad.append('%s [%s] stage %d (%s): %s' % (cfg, d['engine'], s['i'], k, msg))
        req(s['has_fn'], 'no stage function')
        req(s['input_size'] >= 1, 'input_size < 1')
        req(s['occ'] == s['preload'], 'fresh FIFO does not hold exactly the pre-load')
        req(bool(s['is_input']) == (s['i'] == 0), 'is_input only on the first stage')
        req(s['item'] == (8 if d['engine'] in ('cr64', 'cr64s') else 4), 'FIFO item size does not match the engine sample type')
        if k == 'half':
            req(s['pre'] >= 2 * s['n'] - (0 if d['engine'] == 'cr32s' else 1) and s['pre_post'] - s['pre'] >= 2 * s['n'] - 1, 'ENV(half-band): context covers the taps on both sides (pre >= 2n-1, post >= 2n-1) (C07)')
            req(s['preload'] == s['pre'], 'half-band latency is pre-loaded exactly (preload == pre) (C04)')
            req(s['input_size'] > s['pre_post'], 'ENV(half-band): progress (input_size > pre_post) (C08)')
        elif k == 'poly':
            step_int = s['step'] >> 32
            req(s['pre'] == 0 and s['pre_post'] >= s['n'] - 1, 'ENV(poly): retained context pre_post >= taps read per output - 1 (n = %d, pre_post = %d) (C07)' % (s['n'], s['pre_post']))
            # rational stepping (L > 1) counts in units of 1/L sample: one step is M/L samples
            req(step_int <= s['pre_post'] * max(s['L'], 1), 'ENV(poly): one step fits the retained context')
            req(s['input_size'] > s['pre_post'], 'ENV(poly): progress (input_size > pre_post) (C08)')
            req(s['has_poly'], 'coefficient table allocated')
            rational = s['L'] > 1 or (s['phase_bits'] == 0 and s['step'] == (step_int << 32))
            if s['L'] <= 1:          # (rational rows reuse the field for the fixed FIR length: unused by the order-0 kernels)
                req(s['phase_bits'] < 32, 'phase_bits below 32 (shift count of the phase extraction)')
            # start phase: at == L * phase0 in 32.32 (half a tap for odd per-phase length)
            want_at = int(Fraction(s['L']) * Fraction(s['phase0']) * (1 << 32) + Fraction(1, 2))
            req(s['at'] == want_at, 'start phase at == L*phase0 (got %d, expected %d) (C04)' % (s['at'], want_at))
            if s['L'] > 1:
                req(Fraction(s['L']) * Fraction(s['phase0']) == int(Fraction(s['L']) * Fraction(s['phase0'])), 'rational stepping starts on an integer phase (L*phase0 integral) (C04)')
                req(0 <= (s['at'] >> 32) < s['L'], 'phase in [0, L)')
            if s['hi_prec']:
                req(s['at_ls'] == 0x8000000000000000, 'hi-prec clock starts at the half-LSB')
            if s['step'] > 0:
                req(Fraction(s['oir']) * s['step'] >= Fraction((1 << 32) * max(s['L'], 1)) * (1 - Fraction(1, 1 << 48)), 'output reservation ratio >= L*2^32/step (C07)')
        elif k == 'cubic':
            step_int = s['step'] >> 32
            req(s['pre'] >= 1 and s['pre_post'] - s['pre'] >= 2 and s['pre_post'] >= step_int, 'ENV(cubic): context covers s[-1..2] and one whole step (C07)')
            req(s['preload'] == s['pre'], 'cubic latency is pre-loaded exactly (preload == pre) (C04)')
            req(s['input_size'] > s['pre_post'], 'ENV(cubic): progress (input_size > pre_post) (C08)')
            req(s['step'] > 0, 'positive step')
        elif k == 'dft':
            L = s['L']; at = s['at'] >> 32
            req(L >= 1 and 0 <= at < L, 'phase in [0, L)')
            req(s['dft_length'] > 0 and (s['dft_length'] & (s['dft_length'] - 1)) == 0 and s['dft_length'] >= s['num_taps'] >= 1, 'DFT length: power of two >= filter length')
            req(s['block_len'] == s['dft_length'] - (s['num_taps'] - 1) and s['block_len'] >= 1, 'block_len == dft_length - overlap >= 1')
            req(s['preload'] * L + at == s['post_peak'], 'latency compensation preload*L + phase == post_peak (C04)')
            req(s['input_size'] == (s['dft_length'] - at + L - 1) // L, 'input_size is one DFT block')
            if lin:
                req(s['post_peak'] == s['num_taps'] // 2, 'linear phase: peak at the centre tap')
            if pow2(L):
                req(s['dft_length'] // L >= 32 and (s['dft_length'] // L) % 32 == 0, 'frequency-domain up-sampling: >= 32 points per portion (pffft) (C09/C07)')
                if lin:
                    req(at == 0 and (s['num_taps'] - 1) % L == 0, 'frequency-domain up-sampling is block aligned (at == 0, overlap multiple of L)')
            req(s['pre'] == 0 and s['pre_post'] == 0, 'DFT stage keeps no sample context')
    # rate identity (C04: no drift): the product of the per-stage input/output ratios IS the configured io_ratio
    prod = Fraction(1); tol = Fraction(1, 1 << 49); ok = True
    for s in st[:ns]:
        k = kind(s)
        if k == 'half':
            prod *= 2
        elif k == 'dft':
            M = s['step'] >> 32
            M = M if M > 0 else -2 * M
            if M <= 0 or s['L'] <= 0:
                ok = False; break
            prod *= Fraction(M, s['L'])
        elif k == 'cubic':
            prod *= Fraction(s['step'], 1 << 32); tol = max(tol, Fraction(1, 2 * s['step']) + Fraction(1, 1 << 49))     # step rounded to the nearest 2^-32
        elif k == 'poly':
            L = max(s['L'], 1)
            if s['hi_prec']:
                prod *= Fraction((s['step'] << 64) + s['step_ls'], (1 << 96) * L); tol = max(tol, Fraction(1, 1 << 45))
            else:
                prod *= Fraction(s['step'], (1 << 32) * L)
                if L == 1:      # 32.32 clock: the step is rounded to 2^-32 of a stage-input period
                    tol = max(tol, Fraction(1, 2 * s['step']) + Fraction(1, 1 << 49))
        else:
            ok = False; break
    if ok and ns:
        want = Fraction(d['io_ratio'])
        if abs(prod - want) > tol * want:
            bad.append('%s [%s]: rate identity: the stages convert by %.15g but io_ratio is %.15g (relative error %.3g > %.3g): timing drifts (C04)' % (
                cfg, d['engine'], float(prod), float(want), float(abs(prod - want) / want), float(tol)))
    return n


def plan_env_check(workdir, tier, env, label):
    exe = build_dump(workdir)
    lines = cfg_lines(tier)
    e = dict(os.environ)
    for k in list(e):
        if k.startswith('SOXR_'):
            del e[k]
    e.update(env)
    r = subprocess.run([exe], input='\n'.join(lines) + '\n', capture_output=True, text=True, env=e, timeout=600)
    if r.returncode:
        return {'status': 'broken', 'detail': 'plan dumper failed rc=%s %s' % (r.returncode, r.stderr[-300:])}
    bad, nst, ncfg, rejected, kinds = [], 0, 0, 0, {}
    for ln in r.stdout.strip().split('\n'):
        d = json.loads(ln)
        ncfg += 1
        if d.get('error'):
            rejected += 1
            continue
        nst += check_plan(d, bad)
        for s in (d.get('stages') or [])[:d.get('num_stages', 0)]:
            kinds[kind(s)] = kinds.get(kind(s), 0) + 1
    res = {'status': 'fail' if bad else 'pass', 'failed': bad[:12], 'queries': nst, 'queries_nontrivial': nst, 'witness_ok': nst > 100,
           'extra': {'configurations': ncfg, 'rejected_by_create': rejected, 'stages_checked': nst, 'stage_kinds': kinds, 'engine_env': env,
                     'note': 'enumeration over a configuration list (native execution of the real planner), not a solver verdict'}}
    if bad:
        rp = os.path.join(runner.VERIF, 'replays', 'planenv', label + '.json')
        os.makedirs(os.path.dirname(rp), exist_ok=True)
        json.dump({'failed': bad, 'env': env}, open(rp, 'w'), indent=1)
        res['replay_written'] = rp
        res['native'] = 'native plan of the real library'
    return res


ENGINES = {'cr32s_cr64s': {}, 'cr32_cr64': {'SOXR_USE_SIMD': '0'}}


def obls(tier):
    out = []
    for label, env in ENGINES.items():
        out.append(runner.Obl(name='plan_env_%s' % label, py=lambda wd, env=env, label=label, tier=tier: plan_env_check(wd, tier, env, label), native=False,
                              desc='ENV-(b): every stage of the plans the real _soxr_init builds for %d configurations (engines %s) lies inside the stage envelope that the kernel obligations assume' % (len(cfg_lines(tier)), label),
                              bounds='finite configuration list (%d ratios x recipes x runtime flags); native execution + exact integer/rational comparison: enumeration, not a solver verdict' % len(RATIOS),
                              funcs=['cr.c:_soxr_init', 'cr.c:dft_stage_init', 'soxr.c:soxr_create']))
    return out
