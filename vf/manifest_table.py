from vf.registry import claim, na

claim('C07',
      'Bounded proof per obligation: cbmc explores every value of the symbolic call sizes, flags, engine supply and API state within the stated bounds and checks every pointer access, shift, division, signed overflow and float->int conversion of the real soxr.c/data-io.c (and kernels) plus the buffer-contract assertions; inductive-step form (one call from any API state) so that history length is not a bound.',
      'Trusted: cbmc/SAT; the abstract engine contract between soxr.c and the engines (proved on the engine side by the L2/L3 obligations); constant-size caller allocations with canaries (over-reads that never reach the engine are outside the claim); frames per call <= 3-4; io_ratio in [2^-12,2^12].')

claim('C11',
      'Bounded proof per obligation over the real conversion kernels: one sample with every bit symbolic (all 2^32 float / 2^64 double patterns incl. NaN/inf/ties/limits) at chosen positions of the 16-sample block, its clip fix-up re-run and the tail loop, for all 12 kernels (2 precisions x int32/int16/int16-dither x mono/strided) and all 16 de-interleave paths; oracle from the property text (nearest, saturate, clip count, dither < 1.5 LSB).',
      'Trusted: cbmc float semantics (IEEE RNE); x87 FIST model (validated natively against the asm of the current rint.h on every run); other samples of the block concrete; n in {2,17,33}.')
claim('C18',
      'Bounded proof, inductive step: one soxr_output call of the real soxr.c from any API state with a nondeterministic input function (short supply, end, failure at any of <= 4 calls) over the abstract engine: request <= max_ilen, consume-once-in-order (ghost sequence numbers checked inside the engine), no call after end/failure/in error state, error string set.',
      'Trusted: cbmc; abstract engine contract; frames per call <= 3 (4 thorough); datatypes/layout/engine/channels enumerated per obligation.')

for pid in ['C01', 'C02', 'C03', 'C04', 'C05', 'C06', 'C08', 'C09', 'C10', 'C12', 'C13', 'C14', 'C15', 'C16',
            'C17', 'C19', 'C20']:
    na(pid, 'check under construction in this session (breadth-first build order of DESIGN.md section 12); not yet claimed')
