from vf.registry import claim, na

claim('C07',
      'Bounded proof per obligation: cbmc explores every value of the symbolic call sizes, flags, engine supply and API state within the stated bounds and checks every pointer access, shift, division, signed overflow and float->int conversion of the real soxr.c/data-io.c (and kernels) plus the buffer-contract assertions; inductive-step form (one call from any API state) so that history length is not a bound.',
      'Trusted: cbmc/SAT; the abstract engine contract between soxr.c and the engines (proved on the engine side by the L2/L3 obligations); constant-size caller allocations with canaries (over-reads that never reach the engine are outside the claim); frames per call <= 3-4; io_ratio in [2^-12,2^12].')

for pid in ['C01', 'C02', 'C03', 'C04', 'C05', 'C06', 'C08', 'C09', 'C10', 'C11', 'C12', 'C13', 'C14', 'C15', 'C16',
            'C17', 'C18', 'C19', 'C20']:
    na(pid, 'check under construction in this session (breadth-first build order of DESIGN.md section 12); not yet claimed')
