from vf.registry import claim, na

claim('C07',
      'Bounded proof per obligation: cbmc explores every value of the symbolic call sizes, flags, engine supply and API state within the stated bounds and checks every pointer access, shift, division, signed overflow and float->int conversion of the real soxr.c/data-io.c (and kernels) plus the buffer-contract assertions; inductive-step form (one call from any API state) so that history length is not a bound.',
      'Trusted: cbmc/SAT; the abstract engine contract between soxr.c and the engines (proved on the engine side by the L2/L3 obligations); constant-size caller allocations with canaries (over-reads that never reach the engine are outside the claim); frames per call <= 3-4; io_ratio in [2^-12,2^12].')

claim('C11',
      'Bounded proof per obligation over the real conversion kernels: one sample with every bit symbolic (all 2^32 float / 2^64 double patterns incl. NaN/inf/ties/limits) at chosen positions of the 16-sample block, its clip fix-up re-run and the tail loop, for all 12 kernels (2 precisions x int32/int16/int16-dither x mono/strided) and all 16 de-interleave paths; oracle from the property text (nearest, saturate, clip count, dither < 1.5 LSB).',
      'Trusted: cbmc float semantics (IEEE RNE); x87 FIST model (validated natively against the asm of the current rint.h on every run); other samples of the block concrete; n in {2,17,33}.')
claim('C18',
      'Bounded proof, inductive step: one soxr_output call of the real soxr.c from any API state with a nondeterministic input function (short supply, end, failure at any of <= 4 calls) over the abstract engine: request <= max_ilen, consume-once-in-order (ghost sequence numbers checked inside the engine), no call after end/failure/in error state, error string set.',
      'Trusted: cbmc; abstract engine contract; frames per call <= 3 (4 thorough); datatypes/layout/engine/channels enumerated per obligation.')

for pid in [
            ]:
    na(pid, 'check under construction in this session (breadth-first build order of DESIGN.md section 12); not yet claimed')

claim('C03',
      'Bounded proof, inductive step over the real accounting code of cr.c (abstract stage kernels): from any state satisfying the invariant, end-of-input fixes the total at round-half-up(N/io_ratio); never more than owed is delivered; a request is filled until the total is reached, then 0 for ever; input after end-of-input is refused; soxr.c latches end-of-input, reaches every channel engine before drawing output, and the pull loop starts the drain in the call in which the input function reports end.',
      'Trusted: cbmc/kissat; stage progress contract (L3 obligations); IEEE division stands for N*orate/irate; flush-division obligations for io_ratio in {2,4,1/2,1/4} with N < 2^31 (quick) plus 8-bit ratios with N < 2^16 (thorough); owed - delivered and olen < 2^31.')
claim('C15',
      'Bounded proof, inductive step over the real _soxr_delay/_soxr_flush/_soxr_output/_soxr_input: delivered + round(delay) equals the total a flush fixes, delay >= -1 while streaming, equals the frames still to come after end-of-input, 0 when drained / before input; soxr_delay forwards the engine value and is 0 in the error state.',
      'Trusted: cbmc/kissat; io_ratio a power of two and N < 2^16 for the float identities (other constants did not finish); frames_not_yet_supplied == 0; while streaming delivered <= N/io_ratio + 1 is assumed (C03).')
claim('C08',
      'Bounded proof with unwinding assertions over the real loops of cr.c (_soxr_process, stage_process) and soxr.c (soxr_output pull loop): termination within a bound that depends on the request only, drain after end-of-input, for any input-function behaviour and any engine supply.',
      'Trusted: cbmc; abstract stage progress contract (L3); ENV input_size > pre_post; requests <= 4 frames; the planning loops of _soxr_init (halving loop, rational search) are not encoded.')

claim('C09',
      'Bounded proof over the real soxr_create/soxr_set_io_ratio/initialise with every spec field symbolic (no NaN) over the abstract engine: NULL iff error, named out-of-range inputs rejected, env overrides applied only in range; sticky error (one call from any error state: no engine call, no input-fn call, no output); planner lemmas on the real set_dft_length / dft_stage_init / _soxr_init validation prefix (see evidence).',
      'Trusted: cbmc; abstract engine; output rate constant per obligation (symbolic double division does not finish), channels constant per obligation (1..2); NaN fields outside the claim; "yields a working resampler" beyond safety is the other properties\' content.')
claim('C10',
      'Bounded proof (self-composition): real soxr_create snapshot vs real soxr_clear after ANY history over the abstract engine: every behaviour-relevant field of struct soxr and every engine-create argument equal the fresh state, nothing leaked.',
      'Trusted: cbmc; abstract engine; static tables below the engine boundary (VR coefficient tables, FFT cache) are not covered by this check: that part of C10 is not claimed; dither seed excluded.')
claim('C13',
      'Bounded proof over the real engine-selection logic of soxr_create with precision/flags/SOXR_USE_SIMD* overrides symbolic and CPU detection nondeterministic: the right engine family is installed, overrides win, (de)interleavers match, soxr_engine() names the installed engine.',
      'Partial: numerical agreement of SIMD vs portable kernels within the precision is floating-point error analysis and is NOT claimed; only selection/identity and (via C03/C15 lemmas run on the shared driver) identical length/delay logic.')
claim('C20',
      'Bounded proof over the real soxr_create/initialise/fatal_error/soxr_clear/soxr_delete0 with every allocation event failing or not independently (symbolic subset) and engine creation failing for any channel: no NULL dereference, error reported, no leak, every engine closed once, delete safe.',
      'Trusted: cbmc; allocation model (typed exact-size malloc + ghost live counter); API layer only in this check: allocation sites inside the engines (cr.c, filter.c, fifo.h, vr32.c) are listed in DESIGN.md section 8 as expected defects and are not yet decided here.')

claim('C19',
      'Bounded proof over the real soxr-lsr.c on the real soxr.c over the abstract engine: SRC_DATA contract of src_process / src_callback_read from any state, NULL arguments, and the four sample-array helpers for every bit pattern.',
      'Trusted: cbmc; abstract engine; x87 FIST model; src_ratio constant per obligation; frame totals rely on C03; the ABI-dependent callback cast of src_callback_new is not modelled.')
claim('C06',
      'Bounded proof: index exactness of all (de)interleavers for every bit pattern; per-channel routing of frames through one real soxr.c call (ghost sequence numbers carrying the channel) for all layout combinations; distinct engine object per channel.',
      'Partial: sequential semantics only - the OpenMP interleavings (shared clips/seed) are not decided by this check; engines are abstract (write footprint of real kernels: L3); channels <= 2.')

claim('C04',
      'Bounded proof per real stage kernel (one call from any clock value): exact advance of the virtual read position by step per output for the 32.32 clock, the 32.32+64 clock incl. carry, rational L/M stepping, half-band; loss-free re-normalisation; induction over calls gives no drift for streams of any length. Alignment of the first output frame: E4 impulse-response obligations for the configuration list.',
      'Partial: the planner-side derivation of at/step/preload from io_ratio (cr.c:313-340, 428-474) is not symbolically executable (measured); alignment is decided per configuration of a stated list, not for all ratios. Trusted: cbmc; ENV(kind); step in [0.5,8); <= 4 samples per call.')
claim('C05',
      'Bounded proof: split lemma for every real stage kernel by self-composition (all clock values, all split points), FIFO/driver frame conservation (inductive step), and one real soxr.c push/pull call handing frames over once, in order, for any short supply.',
      'Trusted: cbmc; data-independence argument (paper step) from equal positions to bit-identical samples; DFT-stage numerics stubbed; <= 2 samples per call in the split obligations of the poly-phase kernels.')

E4 = 'hybrid, stated as such: concrete native execution of the real library built from the current tree yields the filter taps / whole-conversion impulse responses; the deciding step is z3 (QF_NRA, portfolio of two z3 versions) on the exact Chebyshev polynomial of the response, proving the bound for every frequency of a band (unsat) or returning a violating frequency; plus cbmc bounded model checking of the real soxr.c/cr.c units named in the evidence'
claim('C02',
      'For the stated configuration list: z3 proves that no stop-band frequency (continuum from the stop-band start to Nyquist) of the whole-conversion prototype, of any designed single-phase stage filter, or of a half-band table exceeds 2^-bits of the DC gain (resp. the tabulated attenuation).',
      'Partial: finite configuration list; prototypes <= 520 taps (quick) / 1500 (thorough); poly-phase (arbitrary-ratio) prototypes not decided; stage-level checks take their band edges from the arguments of lsx_design_lpf.', technique=E4, category='other')
claim('C01',
      'For the stated configuration list: z3 proves pass-band gain within the roll-off class for every in-band frequency of the whole-conversion prototype and of every designed single-phase stage filter; exact symmetry/alignment and per-phase unit gain of the measured prototype (also for long rational plans); recipe mapping of soxr_quality_spec for all recipe words (cbmc).',
      'Partial: irrational ratios / interpolated-coefficient stages, prototypes above the tap limit and rounding noise for non-impulse inputs are not decided; finite configuration list over the four CR engines.', technique=E4, category='other')
claim('C14',
      'For the stated list of phase settings: z3 proves the phase-transformed filters and whole-conversion prototypes meet the same pass-band and stop-band bounds as linear phase over the continuum; p / 100-p are exact mirrors; linear phase is symmetric about the input instant; soxr_quality_spec phase bits (cbmc, all recipe words).',
      'Finite configuration list; known finding KF_C14_POW2_NONLINEAR (1:64 minimum phase) is reported as KNOWN-FINDING, its neighbours are ordinary obligations; output length/rate independence of the phase rests on the C03/C15 lemmas.', technique=E4, category='other')
claim('C12',
      'cbmc: exact rational stepping of the real poly-fir0 kernels (shift covariance), gain folded into every entry of the real poly-phase coefficient table exactly once, scale x datatype ratio handed to the engines; hybrid E4: whole-conversion DC gain and per-output-phase gain equal io_spec.scale for scale in {1, 0.5, 4} on the configuration list.',
      'Partial: superposition within the configured precision (floating-point rounding over FFT/FIR sums) is not decided; basis-input argument (table linear in the taps) for the coefficient-table lemma.', technique=E4, category='other')

claim('C16',
      'Bounded proof over the real vr32.c arithmetic: slew set-up (sign, total movement within one LSB per frame of the target, division paths agree), per-frame stepping of poly_fir_u/d (position += step, step += step_step exactly once), forwarding of ratio/slew to every channel and refusal of a ratio change by constant-rate engines (real soxr.c, one call from any state).',
      'Partial: the audio statements (-80 dB residual, no discontinuity at ratio changes / stage cross-fades) are floating-point properties and are NOT decided; the stage-switch rescaling inside vr_process is not covered by the unit obligations; slew lengths from a stated list, |target-step| < 2^20 (quick).')

claim('C17',
      'Bounded proof over all interleavings (cbmc concurrency mode, sequential consistency) of 2 threads x 1 call (quick) and 2x2 / 3x1 (thorough) through the real ccrw2.h lock macros and the real cache-update code of fft4g_cache.h: locks initialised once and before use, released only when held, tables never reallocated/re-sized during another thread\'s transform, writer exclusive, termination with all locks free and fft_len == max length.',
      'Known finding KF_C17_LAZY_INIT (unguarded first-use initialisation) is reported as KNOWN-FINDING and excluded from the proved twin by initialising before the threads start. Trusted: cbmc partial-order encoding; lock model; table pointers encoded as integer handles (mechanical rewrite regenerated from the current header); lengths in {8,16,32}; vr32 fade_coefs init and _soxr_trace_level race not encoded.',
      technique='bounded model checking of concurrent C (cbmc 6.11 concurrency mode: symbolic partial-order encoding of all interleavings under sequential consistency, SAT/cadical) over the real lock macros and cache-update code with modelled OpenMP locks')


# ---- refinements after the second build phase (append-only: later claim() calls replace the earlier text) ----
HY = 'bounded model checking of the real C translation units (goto-cc + cbmc 6.11; SAT: minisat/kissat/cadical), symbolic inputs, unwinding assertions, vacuity witness, native ASan/UBSan replay; plus ENV-(b): the plans of the real planner compared with the envelope the kernel obligations assume (native enumeration over a stated configuration list, labelled as such)'
claim('C03',
      'Bounded proof, inductive steps over the real accounting code of cr.c (abstract stage kernels), the real dft_stage_fn block bookkeeping (decimation phase carry), the real stage kernels (output count == clock ticks that fit), fifo.h; soxr.c latches end-of-input, reaches every channel engine (also on the split/split path) and the pull loop starts the drain in the call in which the input function reports end.',
      'Trusted: cbmc/kissat; IEEE division stands for N*orate/irate; flush-division obligations for io_ratio in {2,4,1/2,1/4} with N < 2^31 (quick) plus 8-bit ratios with N < 2^16 (thorough); owed - delivered and olen < 2^31; ENV-(b) closes planner vs kernels per configuration only.', technique=HY)
claim('C04',
      'Bounded proof per real stage kernel and for the real dft_stage_fn (one call from any clock value / phase): exact advance of the virtual read position; dft_stage_init latency compensation; ENV-(b) incl. the rate identity (product of the stage ratios == io_ratio within the clock resolution) and start phase for ~750 real plans; E4: first-frame alignment / symmetry of measured whole-conversion prototypes.',
      'Partial: the planner-side derivation of at/step/preload from io_ratio is decided per configuration of a stated list (native), not for all ratios; kernels: step in [0.5,8), <= 4 samples per call.', technique=HY + '; E4 exact arithmetic on measured impulse responses')
claim('C05',
      'Bounded proof: split lemma for every real stage kernel (self-composition), real dft_stage_fn (a block is taken exactly when buffered; input_size is the next block), fifo.h (content preserved across compaction/growth, read/trim), driver frame conservation incl. the length of the end-of-input padding, one real soxr.c push/pull call handing frames over once, in order.',
      'Trusted: cbmc; data-independence argument (paper step) from equal positions to bit-identical samples; DFT numerics stubbed; FIFO lemma on concrete offset shapes with symbolic data.', technique=HY)
claim('C07',
      'Bounded proof per obligation: pointer/bounds/overflow/shift/conversion checks over one real API call from any state (soxr.c/data-io.c), the real stage kernels incl. the SSE kernels h8/vpoly0, dft_stage_fn, fifo.h, the planner pieces (set_dft_length, dft_stage_init, validation prefix, halving loop, quick-recipe _soxr_init), buffer-contract assertions; ENV-(b) for ~750 real plans.',
      'Trusted: cbmc/SAT; abstract engine contract; constant-size caller allocations with canaries; frames per call <= 3-4; inside pffft/fft4g transforms, vr_process as a whole and the AVX kernels are not covered.', technique=HY)
claim('C08',
      'Bounded proof with unwinding assertions over the real loops of cr.c (_soxr_process, stage_process, halving loop of _soxr_init) and soxr.c (pull loop); progress obligation per real kernel and for dft_stage_fn (time- and frequency-domain paths); quick-recipe _soxr_init inside ENV(cubic) for every io_ratio; ENV-(b): input_size > pre_post for every stage of ~750 real plans (ratios up to 100000:1).',
      'Trusted: cbmc; abstract stage progress contract; requests <= 4 frames; rational-search loop and the rest of the planning loop not encoded; non-finite ratios and io_ratio < 2^-33 (quick recipe) outside.', technique=HY)
claim('C20',
      'Bounded proof over the real soxr_create/initialise/fatal_error/soxr_clear/soxr_set_io_ratio/soxr_delete0 with every allocation event failing or not independently and engine creation failing for any channel: no NULL dereference, error reported AND recorded in a surviving object, no leak, every engine closed once; engine side: the real _soxr_init (quick recipe) with every malloc/calloc failing or not.',
      'Known finding KF_C20_FIFO_CREATE (fifo_create result ignored) reported as KNOWN-FINDING; the other allocation sites of the engines (filter design, DFT set-up, poly-phase tables, FIFO growth, vr32.c) are NOT decided.')
claim('C16',
      'Bounded proof over the real vr32.c arithmetic: slew set-up (set_step_step) and vr_set_io_ratio during a cross-fade (both streams reach the same ratio), per-frame stepping of poly_fir_u/d, forwarding of ratio/slew to every channel and refusal by constant-rate engines (real soxr.c).',
      'Partial: audio statements not decided; the stage-switch block inside vr_process gave no verdict (seed C16 not detected); slew lengths from a stated list, |target-step| < 2^20 (quick).')

claim('C13',
      'Bounded proof over the real engine-selection logic of soxr_create (precision/flags/SOXR_USE_SIMD* overrides symbolic, CPU detection nondeterministic); symbolic-impulse lemma for the half-band kernels of cr32/cr64/cr32s taken from the real half_firs[] rows (every tap applied to the right sample, SSE shuffles modelled exactly); fixed-length portable kernels vs general kernels on their poly_firs[] rows (concrete probes); both coefficient layouts filled by the same code; shared accounting lemmas.',
      'Partial: numerical agreement of SIMD vs portable kernels within the precision is floating-point error analysis and is NOT claimed; AVX kernels and the interpolated SIMD poly-phase kernels are not compared.')
claim('C09',
      'Bounded proof over the real soxr_create/soxr_set_io_ratio/initialise with every spec field symbolic (no NaN) over the abstract engine: NULL iff error, named out-of-range inputs rejected, env overrides applied only in range, every channel created alike; sticky error; set_dft_length for all lengths x documented sizes; dft_stage_init envelope incl. the pffft set-up precondition; _soxr_init rejects every out-of-range spec before touching the object and its halving loop terminates; ENV-(b) for ~750 accepted configurations.',
      'Trusted: cbmc; abstract engine; output rate and channel count constant per obligation; NaN fields outside the claim; "yields a working resampler" beyond safety is the other properties\' content.', technique=HY)

claim('C16',
      'Bounded proof over the real vr32.c: slew set-up (set_step_step) and vr_set_io_ratio during a cross-fade (both streams reach the same ratio); per-frame stepping of the plain and cross-fade kernels poly_fir_u/d, poly_fir_fade_u/d; one real vr_process call across an octave boundary (stages -1<->0<->1, both directions; path-wise symbolic execution, kernels replaced at goto level): fade-in and fade-out streams keep the same ratio, slew rate and input instant, no undefined shift; forwarding of ratio/slew to every channel and refusal by constant-rate engines (real soxr.c).',
      'Partial: audio statements (-80 dB residual, no audible discontinuity) not decided; stage switches above stage 1 repeat the 0<->1 arithmetic and are not separate obligations; slew lengths from a stated list, |target-step| < 2^20 (quick); remaining slew length constant in the stage-switch obligations.', technique='bounded model checking of the real C translation units (goto-cc + cbmc 6.11, SAT), symbolic inputs, unwinding assertions, vacuity witness, native ASan/UBSan replay of counterexamples; for the vr_process obligations: goto-instrument --replace-calls substitutes the sample-arithmetic leaf functions (stated per obligation) and cbmc explores path-wise (--paths lifo: one SAT query per path, every path of the bounded harness)')

claim('C10',
      'Bounded proof (self-composition): real soxr_create snapshot vs real soxr_clear after ANY history over the abstract engine: every behaviour-relevant field of struct soxr and every engine-create argument equal the fresh state, nothing leaked. Process-wide VR coefficient tables: two real vr_init calls with symbolic gains (each with/without decimation stages) then one real vr_process call of the second instance: it applies its own gain (DC-gain semantics substituted at goto level for prepare_coefs / per-sample kernels / IIR pair).',
      'Trusted: cbmc, goto-instrument; abstract engine; FFT-cache tables (bit-identity across cache growth) and the VR cross-fade table are not covered: that part of C10 is not claimed; dither seed excluded.', technique='bounded model checking of the real C translation units (goto-cc + cbmc 6.11, SAT), symbolic inputs, unwinding assertions, vacuity witness, native ASan/UBSan replay of counterexamples; for the vr_process obligations: goto-instrument --replace-calls substitutes the sample-arithmetic leaf functions (stated per obligation) and cbmc explores path-wise (--paths lifo: one SAT query per path, every path of the bounded harness)')
