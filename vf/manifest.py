"""MANIFEST.json generator: `python3 -m vf.manifest` rewrites /verif/MANIFEST.json from the table below."""
import json, os
VERIF = os.path.dirname(os.path.dirname(os.path.abspath(__file__)))

_CBMC = 'bounded model checking of the real C translation units (goto-cc + cbmc 6.11, SAT), symbolic inputs, unwinding assertions, vacuity witness, native ASan/UBSan replay of counterexamples'

from vf.registry import CLAIMED, NOT_APPLICABLE
from vf import manifest_table  # noqa: F401  (fills the registry)


def build():
    checks = []
    for pid in sorted(CLAIMED):
        c = CLAIMED[pid]
        checks.append({
            'property_id': pid,
            'quick_cmd': 'bin/check %s --tier quick' % pid,
            'thorough_cmd': 'bin/check %s --tier thorough' % pid,
            'evidence_file': 'evidence/%s.json' % pid,
            'replay_cmd_template': 'bin/check %s --replay {path}' % pid,
            'engine': 'vf',
            'level_claimed': {'category': c['category'], 'text': c['text'], 'design_ref': c['ref']},
            'level_note': c['note'],
            'technique': c['technique'],
        })
    m = {
        'version': 1,
        'setup_cmd': 'bin/setup',
        'hooks': {
            'guard': 'SOXR_VERIF',
            'enable': 'harnesses are compiled by goto-cc/gcc with -DSOXR_VERIF; no hook in /repo is needed by the checks (static functions are reached by textual inclusion, rint.h is displaced through its include guard)',
            'baseline_off_cmd': 'cmake -S /repo -B /repo/_build -G Ninja -DCMAKE_BUILD_TYPE=RelWithDebInfo -DCMAKE_C_FLAGS=-Wno-error -DBUILD_TESTS=ON -DBUILD_LSR_TESTS=ON >/dev/null && cmake --build /repo/_build >/dev/null && ctest --test-dir /repo/_build -j8 --timeout 900',
            'source_commits': [],
            'add_only': True,
        },
        'engines': [
            {'name': 'vf', 'path': 'vf/runner.py', 'serves_properties': sorted(CLAIMED),
             'kind_free_text': 'obligation runner: goto-cc + cbmc on harnesses (harness/*.c) that #include the real sources of /repo; z3 encoders (vf/e3, vf/e4); known-finding matching; native replay'},
        ],
        'checks': checks,
        'not_applicable': [{'property_id': k, 'reason': v} for k, v in sorted(NOT_APPLICABLE.items())],
        'notes': 'Solver-based checking of the real code; see DESIGN.md. Exit codes of bin/check: 0 held, 1 VIOLATION, 2 check broken, 3 inconclusive (timeout / out of memory) - 2 and 3 are never reported as success.',
    }
    with open(os.path.join(VERIF, 'MANIFEST.json'), 'w') as f:
        json.dump(m, f, indent=1)
    return m


if __name__ == '__main__':
    m = build()
    print('claimed:', [c['property_id'] for c in m['checks']])
    print('not_applicable:', [c['property_id'] for c in m['not_applicable']])
