"""E4: frequency response of the filters the REAL library builds, decided over a continuum of frequencies by z3.

Data path: the current /repo/src is compiled natively; harness/e4_capture.c runs the real soxr_create (and, for the
end-to-end prototypes, the whole real conversion on impulses) and prints the designed taps / impulse responses.
Deciding step: the amplitude response of a real FIR is a polynomial in x = cos w (Chebyshev expansion; |H|^2 from
the autocorrelation for non-symmetric filters).  With the taps as exact rationals, "for all w in [w1, w2]:
lo <= P(cos w) <= hi" is a univariate real-arithmetic query that z3 decides (unsat = holds on the whole band,
sat = a frequency where it fails).  Quantification over configurations is a finite, stated list.
"""
import json
import math
import os
import subprocess
import time
import concurrent.futures as cf
from fractions import Fraction

from vf import runner

Z3 = os.environ.get('VF_Z3', 'z3')
MAX_TAPS_QUICK = 520
PI = Fraction(math.pi)


def build_capture(workdir):
    """compile the library objects from the current tree + the capture driver; returns exe path or raises"""
    exe = os.path.join(workdir, 'e4_cap')
    if os.path.exists(exe):
        return exe
    gen = os.path.join(workdir, 'gen')
    od = os.path.join(workdir, 'e4_objs')
    os.makedirs(od, exist_ok=True)

    def cc(s):
        fl = ['gcc', '-O2', '-c', '-w', '-DSOXR_LIB', '-DNDEBUG', '-std=gnu89', '-I' + gen, '-I' + runner.REPO + '/src', '-o',
              os.path.join(od, s.replace('.c', '.o')), os.path.join(runner.REPO, 'src', s)]
        if s in ('cr64s.c', 'pffft64s.c', 'util64s.c'):
            fl.insert(1, '-mavx')
        r = subprocess.run(fl, capture_output=True, text=True)
        return s, r.returncode, r.stderr[-400:]
    with cf.ThreadPoolExecutor(8) as ex:
        for s, rc, e in ex.map(cc, runner.LIB_SOURCES):
            if rc:
                raise RuntimeError('native build of %s failed: %s' % (s, e))
    objs = [os.path.join(od, s.replace('.c', '.o')) for s in runner.LIB_SOURCES]
    r = subprocess.run(['gcc', '-O1', '-w', '-o', exe + '.tmp', '-I' + runner.REPO + '/src', os.path.join(runner.HARNESS, 'e4_capture.c')] + objs +
                       ['-lm', '-Wl,--wrap=_soxr_design_lpf,--wrap=_soxr_fir_to_phase'], capture_output=True, text=True)
    if r.returncode:
        raise RuntimeError('capture driver link failed: ' + r.stderr[-600:])
    os.replace(exe + '.tmp', exe)
    return exe


class Cfg:
    def __init__(self, irate, orate, recipe=4, qflags=0, precision=-1, phase=-1, passband=-1, stopband=-1, rtflags=0, scale=1.0,
                 e2e=0, i0=1500, env=None, name=None):
        self.__dict__.update(locals())
        self.env = env or {}
        self.name = name or '%d_%d_r%d_f%x_p%g_ph%g%s' % (irate, orate, recipe, qflags, precision, phase, ''.join('_%s%s' % (k[-6:], v) for k, v in sorted(self.env.items())))

    def args(self):
        return [str(x) for x in (self.irate, self.orate, self.recipe, self.qflags, self.precision, self.phase, self.passband,
                                 self.stopband, self.rtflags, self.scale, self.e2e, self.i0)]


def capture(exe, cfg, timeout=120):
    env = dict(os.environ)
    for k in list(env):
        if k.startswith('SOXR_'):
            del env[k]
    env.update(cfg.env)
    r = subprocess.run([exe] + cfg.args(), capture_output=True, text=True, env=env, timeout=timeout)
    if r.returncode:
        raise RuntimeError('capture run failed rc=%s %s' % (r.returncode, r.stderr[-300:]))
    return json.loads(r.stdout)


def hx(s):
    return Fraction(float.fromhex(s))


# ---------------------------------------------------------------- polynomials in x = cos w
def cheb_to_monomial(c):
    """sum_t c[t] * T_t(x)  ->  monomial coefficient list (exact Fractions/ints)"""
    n = len(c)
    res = [0] * n
    tkm1 = [1]            # T_0
    tk = [0, 1]           # T_1
    for t in range(n):
        if t == 0:
            cur = tkm1
        elif t == 1:
            cur = tk
        else:
            nxt = [0] * (t + 1)
            for i, a in enumerate(tk):
                nxt[i + 1] += 2 * a
            for i, a in enumerate(tkm1):
                nxt[i] -= a
            tkm1, tk = tk, nxt
            cur = nxt
        ct = c[t]
        if ct:
            for i, a in enumerate(cur):
                if a:
                    res[i] += ct * a
    return res


def amp_poly_symmetric(g):
    """g: dict t -> Fraction, symmetric about 0 (g[t] == g[-t] taken as the mean): A(w) = g0 + 2 sum_{t>0} g_t cos(t w)"""
    T = max(abs(t) for t in g)
    c = [Fraction(0)] * (T + 1)
    for t, v in g.items():
        c[abs(t)] += v if t == 0 else v       # g_t + g_-t accumulates to 2*mean
    return c                                   # Chebyshev coefficients of A


def power_cheb(h):
    """|H(w)|^2 = r0 + 2 sum_{k>0} r_k cos(k w) with r the autocorrelation of the (arbitrary) real FIR h (list)"""
    n = len(h)
    # integer arithmetic: scale to a common power of two
    den = 1
    for v in h:
        if v.denominator > den:
            den = v.denominator
    hi = [int(v * den) for v in h]
    r = [0] * n
    for k in range(n):
        s = 0
        for i in range(n - k):
            s += hi[i] * hi[i + k]
        r[k] = s
    d2 = den * den
    return [Fraction(r[0], d2)] + [Fraction(2 * r[k], d2) for k in range(1, n)]


def to_int_poly(coefs):
    """Fractions -> (ints, common denominator)"""
    den = 1
    for v in coefs:
        v = Fraction(v)
        den = den * v.denominator // math.gcd(den, v.denominator)
    return [int(Fraction(v) * den) for v in coefs], den


def horner(ints):
    s = None
    for a in reversed(ints):
        lit = str(a) if a >= 0 else '(- %d)' % (-a)
        s = lit if s is None else '(+ %s (* x %s))' % (lit, s)
    return s


def frac_lit(f):
    f = Fraction(f)
    n, d = f.numerator, f.denominator
    s = '(/ %d %d)' % (abs(n), d) if d != 1 else str(abs(n))
    return s if n >= 0 else '(- %s)' % s


def z3_band(mono, w_lo, w_hi, lo=None, hi=None, timeout=120):
    """decide: for all w in [w_lo, w_hi] (radians, 0..pi): lo <= P(cos w) <= hi.  The band edges are rounded OUTWARD to
    rationals (so the proved band contains the requested one).  -> dict(status 'holds'|'fails'|'unknown', witness, secs)"""
    ints, den = to_int_poly(mono)
    # x range: cos is decreasing; outward rounding by 1e-12
    xa = Fraction(math.cos(w_hi)) - Fraction(1, 10 ** 12)
    xb = Fraction(math.cos(w_lo)) + Fraction(1, 10 ** 12)
    xa = max(xa, Fraction(-1)); xb = min(xb, Fraction(1))
    conds = []
    if hi is not None:
        conds.append('(> p %s)' % frac_lit(Fraction(hi) * den))
    if lo is not None:
        conds.append('(< p %s)' % frac_lit(Fraction(lo) * den))
    # Horner nesting depth equals the degree: write it as a chain of let-bound partial results instead
    lines = ['(set-logic QF_NRA)', '(declare-const x Real)', '(assert (and (>= x %s) (<= x %s)))' % (frac_lit(xa), frac_lit(xb))]
    lines.append('(define-fun p () Real %s)' % horner(ints))
    lines.append('(assert (or %s))' % ' '.join(conds) if len(conds) > 1 else '(assert %s)' % conds[0])
    lines += ['(check-sat)', '(get-value (x))']
    t0 = time.time()
    try:
        r = subprocess.run([Z3, '-in', '-T:%d' % timeout], input='\n'.join(lines), capture_output=True, text=True, timeout=timeout + 30)
        out = r.stdout
    except subprocess.TimeoutExpired:
        out = 'timeout'
    dt = time.time() - t0
    first = out.strip().split('\n')[0] if out.strip() else ''
    if '(error' in out and first not in ('unsat',):
        if first != 'sat':
            return {'status': 'unknown', 'detail': out[:300], 'secs': dt}
    if first == 'unsat':
        return {'status': 'holds', 'secs': dt}
    if first == 'sat':
        return {'status': 'fails', 'witness': out.strip().split('\n', 1)[1][:200] if '\n' in out.strip() else '', 'secs': dt}
    return {'status': 'unknown', 'detail': out[:200], 'secs': dt}


def eval_amp(cheb, w):
    """numeric evaluation of sum c_t cos(t w) (cross-check of the polynomial construction)"""
    return sum(float(c) * math.cos(t * w) for t, c in enumerate(cheb))


# ---------------------------------------------------------------- prototype reconstruction
def prototype(d):
    """end-to-end high-rate impulse response g[t] of a rational L/M conversion from the M impulse runs"""
    L, M, i0 = d['L'], d['M'], d['i0']
    g = {}
    for r in d['responses']:
        m = r['m']
        for j, s in enumerate(r['y']):
            v = hx(s)
            if v:
                n = r['first'] + j
                t = n * M - (i0 + m) * L
                if t in g:
                    raise RuntimeError('prototype reconstruction: index %d hit twice' % t)
                g[t] = v
    return g


def truncate(g, budget):
    """keep the centre part of g; the dropped tail's L1 norm is <= budget (returned exactly)"""
    ts = sorted(g, key=lambda t: -abs(t))
    tail = Fraction(0)
    drop = set()
    for t in ts:
        if tail + abs(g[t]) > budget:
            break
        tail += abs(g[t]); drop.add(t)
    W = max((abs(t) for t in g if t not in drop), default=0)
    # drop only what lies strictly outside +-W (keep the window contiguous)
    kept = {t: v for t, v in g.items() if abs(t) <= W}
    tail = sum((abs(v) for t, v in g.items() if abs(t) > W), Fraction(0))
    return kept, tail, W


RIPPLE_DB = {0: 0.01, 1: 0.35}     # SOXR_ROLLOFF_SMALL / MEDIUM; NONE -> precision


def class_ripple(qflags, bits):
    ro = int(qflags) & 3
    if ro in RIPPLE_DB:
        return 10 ** (RIPPLE_DB[ro] / 20.) - 1
    if ro == 3:
        return 10 ** (0.35 / 20.) - 1
    return 2.0 ** (1 - bits)


# ---------------------------------------------------------------- obligations
import shutil
import threading
Z3S = [z for z in ('z3-new', 'z3') if shutil.which(z)]
_lock = threading.Lock()
_cache = {}


def _smt2(mono, w_lo, w_hi, lo, hi):
    ints, den = to_int_poly(mono)
    xa = max(Fraction(math.cos(w_hi)) - Fraction(1, 10 ** 12), Fraction(-1))      # outward rounding of the band edges
    xb = min(Fraction(math.cos(w_lo)) + Fraction(1, 10 ** 12), Fraction(1))
    conds = []
    if hi is not None:
        conds.append('(> p %s)' % frac_lit(Fraction(hi) * den))
    if lo is not None:
        conds.append('(< p %s)' % frac_lit(Fraction(lo) * den))
    lines = ['(set-logic QF_NRA)', '(declare-const x Real)', '(assert (and (>= x %s) (<= x %s)))' % (frac_lit(xa), frac_lit(xb)),
             '(define-fun p () Real %s)' % horner(ints),
             ('(assert (or %s))' % ' '.join(conds)) if len(conds) > 1 else '(assert %s)' % conds[0], '(check-sat)', '(get-value (x))']
    return '\n'.join(lines)


def z3_decide(mono, w_lo, w_hi, lo, hi, timeout):
    """exists w in the band with P(cos w) outside [lo, hi]?  Portfolio over the installed z3 versions: the first definite
    verdict wins, the other process is killed.  An '(error' in the output is never read as a verdict."""
    text = _smt2(mono, w_lo, w_hi, lo, hi)
    import hashlib
    key = hashlib.sha256(text.encode()).hexdigest()
    with _qlock:
        ev = _qcache.get(key)
        if ev is None:
            ev = _qcache[key] = {'done': threading.Event(), 'res': None, 'owner': True}
            mine = True
        else:
            mine = False
    if not mine:        # the same query (same taps, band and bound) is being decided for another configuration: share the verdict
        ev['done'].wait(timeout + 30)
        return dict(ev['res'] or {'status': 'unknown', 'detail': 'shared query gave no verdict'}, shared=True)
    try:
        res = _z3_run(text, timeout)
    finally:
        ev['res'] = locals().get('res')
        ev['done'].set()
    return res


_qlock = threading.Lock()
_qcache = {}


def _z3_run(text, timeout):
    """portfolio with restarts: z3's nlsat run time on these polynomials varies wildly between runs of the SAME query (9 s alone,
    > 600 s observed twice); attempts of at most 150 s with different random seeds, both installed versions in parallel each time"""
    t_all = time.time()
    attempt_to = max(30, min(timeout, 150))
    res = None
    for seed in range(max(1, int(timeout // attempt_to) + 1)):
        r = _z3_attempt(text, attempt_to, seed)
        r['secs'] = round(time.time() - t_all, 2)
        r['attempts'] = seed + 1
        if r['status'] in ('holds', 'fails'):
            return r
        res = r
        if time.time() - t_all > timeout:
            break
    return res


def _z3_attempt(text, timeout, seed):
    procs = []
    t0 = time.time()
    for z in Z3S:
        args = [z, '-in', '-T:%d' % timeout] + (['nlsat.seed=%d' % seed, 'smt.random_seed=%d' % seed, 'sat.random_seed=%d' % seed] if seed else [])
        pr = subprocess.Popen(args, stdin=subprocess.PIPE, stdout=subprocess.PIPE, stderr=subprocess.DEVNULL, text=True)
        try:
            pr.stdin.write(text); pr.stdin.close()
        except BrokenPipeError:
            pass
        procs.append((z, pr))
    res = None
    pending = list(procs)
    while pending and time.time() - t0 < timeout + 15:
        for z, pr in list(pending):
            if pr.poll() is not None:
                pending.remove((z, pr))
                out = (pr.stdout.read() or '').strip()
                first = out.split('\n')[0] if out else ''
                dt = round(time.time() - t0, 2)
                errs = [l for l in out.split('\n') if '(error' in l and 'model is not available' not in l]
                if first == 'unsat' and not errs:
                    res = {'status': 'holds', 'secs': dt, 'solver': z}
                elif first == 'sat' and not errs:
                    res = {'status': 'fails', 'witness': out.split('\n', 1)[1][:160] if '\n' in out else '', 'secs': dt, 'solver': z}
                elif res is None:
                    res = {'status': 'unknown', 'detail': out[:160], 'secs': dt, 'solver': z}
                if res['status'] in ('holds', 'fails'):
                    for _, p2 in pending:
                        p2.kill()
                    pending = []
                    break
        else:
            time.sleep(0.05)
    for _, pr in procs:
        if pr.poll() is None:
            pr.kill()
    return res or {'status': 'unknown', 'detail': 'timeout', 'secs': round(time.time() - t0, 2)}


def get_capture(workdir, cfg):
    with _lock:
        exe = build_capture(workdir)
        key = (cfg.name, cfg.e2e, cfg.scale)
        if key in _cache:
            return _cache[key]
    d = capture(exe, cfg)
    with _lock:
        _cache[key] = d
    return d


def parse_witness(w):
    """'((x (/ 1 2)))' or root-obj -> float or None"""
    import re
    m = re.search(r'\(x\s+(.*)\)\)\s*$', w.strip(), re.S)
    if not m:
        return None
    s = m.group(1).strip()
    try:
        m2 = re.match(r'^\(-\s+(.*)\)$', s)
        neg = False
        if m2:
            neg, s = True, m2.group(1).strip()
        m3 = re.match(r'^\(/\s+([\d.]+)\s+([\d.]+)\)$', s)
        v = float(m3.group(1)) / float(m3.group(2)) if m3 else float(s.rstrip('?'))
        return -v if neg else v
    except Exception:
        return None


class Check:
    """collects sub-results of one obligation"""
    def __init__(self, cfg, what):
        self.cfg, self.what = cfg, what
        self.failed, self.queries, self.secs, self.unknown, self.notes = [], 0, 0.0, [], []
        self.witness_ok = True
        self.detail = {}

    def band(self, label, cheb, w_lo, w_hi, lo, hi, timeout, vacuity=None):
        """decide lo <= P(cos w) <= hi on the band; vacuity = (lo', hi') a bound that MUST be violated (encoding check)"""
        mono = cheb_to_monomial(cheb)
        r = z3_decide(mono, w_lo, w_hi, lo, hi, timeout)
        self.queries += 1; self.secs += r.get('secs', 0)
        self.detail[label] = dict(r, deg=len(mono) - 1, band=[round(w_lo, 6), round(w_hi, 6)], lo=float(lo) if lo is not None else None, hi=float(hi) if hi is not None else None)
        if r['status'] == 'fails':
            x = parse_witness(r.get('witness', ''))
            num = None
            if x is not None and -1 <= x <= 1:
                num = eval_amp(cheb, math.acos(x))
            self.failed.append('%s: bound violated at cos w = %s (numeric re-evaluation of the captured taps there: %s; allowed [%s, %s])' % (
                label, x, num, float(lo) if lo is not None else '-', float(hi) if hi is not None else '-'))
        elif r['status'] != 'holds':
            self.unknown.append('%s: %s' % (label, r.get('detail', 'no verdict')))
        if vacuity is not None:
            v = z3_decide(mono, w_lo, w_hi, vacuity[0], vacuity[1], min(timeout, 90))
            self.queries += 1; self.secs += v.get('secs', 0)
            if v['status'] == 'holds':       # an impossibly tight bound "proved": the encoding is vacuous
                self.witness_ok = False
                self.notes.append('%s: vacuity twin (impossibly tight bound) came back as holding' % label)
            elif v['status'] != 'fails':     # no verdict on the twin: recorded; the exact-evaluation self-test below still guards the encoder
                self.detail[label]['vacuity_twin'] = 'no verdict'
        # self-test of the encoder: the monomial form, evaluated EXACTLY at a rational point of the band, against the direct
        # numeric evaluation of sum c_t cos(t w) from the taps
        xm = Fraction(math.cos((w_lo + w_hi) / 2))
        acc = Fraction(0)
        for a in reversed(mono):
            acc = acc * xm + a
        nv = eval_amp(cheb, math.acos(float(xm)))
        scale_ = max(1e-30, sum(abs(float(c)) for c in cheb))
        if abs(float(acc) - nv) > 1e-9 * scale_:
            self.notes.append('%s: monomial form disagrees with direct evaluation (%g vs %g)' % (label, float(acc), nv))
            self.witness_ok = False

    def require(self, label, ok, msg):
        self.queries += 1
        if not ok:
            self.failed.append('%s: %s' % (label, msg))

    def result(self, workdir):
        st = 'fail' if self.failed else 'inconclusive' if self.unknown else 'pass' if self.witness_ok else 'broken'
        r = {'status': st, 'failed': self.failed, 'queries': self.queries, 'queries_nontrivial': self.queries, 'solver_s': round(self.secs, 2),
             'witness_ok': self.witness_ok, 'extra': self.detail, 'functions': []}
        if self.unknown or self.notes:
            r['detail'] = '; '.join(self.unknown + self.notes)[:600]
        if self.failed:
            rp = os.path.join(runner.VERIF, 'replays', 'E4', '%s_%s.json' % (self.what, self.cfg.name))
            os.makedirs(os.path.dirname(rp), exist_ok=True)
            json.dump({'config': {k: v for k, v in self.cfg.__dict__.items() if k not in ('self',)}, 'capture_args': self.cfg.args(), 'env': self.cfg.env,
                       'failed': self.failed, 'detail': self.detail}, open(rp, 'w'), indent=1, default=str)
            r['replay_written'] = rp
            r['native'] = 'numeric re-evaluation in the failed line'
        return r


def bits_of(d):
    b = d['q']['precision']
    return int(b) if b else 16


def e2e_check(workdir, cfg, parts, tier):
    """parts: subset of {'pass','stop','sym','gain'}"""
    d = get_capture(workdir, cfg)
    ck = Check(cfg, 'e2e_' + '_'.join(sorted(parts)))
    if d.get('error'):
        return {'status': 'broken', 'detail': 'configuration rejected by soxr_create: %s' % d['error']}
    bits = bits_of(d); L, M = d['L'], d['M']
    scale = Fraction(cfg.scale)
    float_engine = d['engine'] in ('cr32', 'cr32s')
    g = prototype(d)
    if not g:
        return {'status': 'fail', 'failed': ['no output at all for an impulse'], 'queries': 1}
    G0 = L * scale
    delta0 = Fraction(2) ** (-bits) * abs(G0)
    kept, tail, W = truncate(g, delta0 / 4)
    lin = d['q']['phase'] == 50
    ck.detail['proto'] = {'L': L, 'M': M, 'bits': bits, 'taps_raw': len(g), 'taps_kept': len(kept), 'tail_l1': float(tail), 'engine': d['engine']}
    timeout = 600 if tier == 'quick' else 1800
    mx = max(L, M)
    wp = math.pi * d['q']['passband_end'] / mx
    ws = math.pi * d['q']['stopband_begin'] / mx
    asym = sum((abs(kept.get(t, 0) - kept.get(-t, 0)) for t in kept if t > 0), Fraction(0))
    if 'sym' in parts and lin:
        pk = max(kept, key=lambda t: abs(kept[t]))
        ck.require('alignment', pk == 0, 'linear phase: the impulse response peaks at high-rate index %d, not at the input instant (C04/C14)' % pk)
        # arithmetic noise of the engine under test (float32 FFT/FIR rounding spread over the whole support) is not asymmetry of the
        # filter: allowance proportional to the L1 norm of the response (2^-20 relative for the float engines, 2^-45 for double)
        sym_tol = delta0 + sum((abs(v) for v in kept.values()), Fraction(0)) / (1 << (20 if float_engine else 45))
        ck.require('symmetry', asym <= sym_tol, 'linear phase: impulse response not symmetric about the input instant (L1 asymmetry %g > %g) (C04/C14)' % (float(asym), float(sym_tol)))
        ck.detail['asym_l1'] = float(asym)
    if 'gain' in parts:
        S = sum(g.values())
        ck.require('dc_gain', abs(S - G0) <= 2 * delta0, 'DC gain of the whole conversion is %.12g, expected L*scale = %g (C12)' % (float(S), float(G0)))
        for r_ in range(L):
            br = sum((v for t, v in g.items() if t % L == r_), Fraction(0))
            ck.require('branch_%d' % r_, abs(br - scale) <= 2 * delta0 / L + (Fraction(1, 10 ** 5) if float_engine else 0),
                       'output phase %d of %d has DC gain %.12g, expected %g: a constant input would come out rippled or mis-scaled (C12)' % (r_, L, float(br), float(scale)))
    if ('pass' in parts or 'stop' in parts) and len(kept) > (MAX_TAPS_QUICK if tier == 'quick' else 1500):
        # above the solver's tap limit nothing can be PROVED; but a concrete frequency at which the measured response breaks the bound by a wide
        # margin (factor 4: far beyond float evaluation error) is a counterexample all the same - scan a grid before giving up
        import cmath
        tv = [(float(t), float(g[t])) for t in sorted(g)]
        mag = lambda w: abs(sum(v * cmath.exp(-1j * w * t) for t, v in tv))
        class np:      # (no numpy in the system python)
            @staticmethod
            def linspace(a, b, n):
                return [a + (b - a) * k / (n - 1) for k in range(n)]
        bad = None
        if 'stop' in parts:
            for w in np.linspace(ws, math.pi, 600):
                m = mag(w)
                if m > 4 * float(delta0):
                    bad = 'stop-band: |H| = %.3g at w = %.6f rad/sample of the high rate (cos w = %.6f), allowed %.3g' % (m, w, math.cos(w), float(delta0)); break
        if bad is None and 'pass' in parts:
            rip = float(class_ripple(d['q']['flags'], bits))
            for w in np.linspace(0, wp, 300):
                m = mag(w)
                if abs(m - float(G0)) > 4 * (float(G0) * rip + float(delta0)):
                    bad = 'pass-band: |H| = %.6g at w = %.6f rad/sample of the high rate, expected %.6g within %.3g' % (m, w, float(G0), float(G0) * rip); break
        if bad is None:
            return {'status': 'broken', 'detail': 'prototype of %d taps is above the tap limit of this tier: configuration list must be changed' % len(kept)}
        ck.require('band_scan', False, 'measured prototype has %d taps (above the tap limit: no proof attempted) and violates the bound at a concrete frequency - %s (numeric evaluation of the captured impulse responses) (C01/C02)' % (len(kept), bad))
        return ck.result(workdir)
    if lin:
        slack = tail + asym
        cheb = amp_poly_symmetric(kept)
        # sign: amplitude of the symmetrised response; G0 > 0 assumed (scale > 0)
        if 'pass' in parts:
            rip = Fraction(class_ripple(d['q']['flags'], bits))
            ck.band('passband', cheb, 0.0, wp, G0 * (1 - rip) + slack, G0 * (1 + rip) - slack, timeout, vacuity=(G0 * (1 - Fraction(1, 10 ** 13)), G0 * (1 + Fraction(1, 10 ** 13))))
        if 'stop' in parts:
            dl = delta0 - slack
            ck.band('stopband', cheb, ws, math.pi, -dl, dl, timeout, vacuity=(-dl / 10 ** 6, dl / 10 ** 6))
    else:
        lo_t, hi_t = min(kept), max(kept)
        h = [kept.get(t, Fraction(0)) for t in range(lo_t, hi_t + 1)]
        cheb = power_cheb(h)
        if 'pass' in parts:
            rip = Fraction(class_ripple(d['q']['flags'], bits))
            ck.band('passband_power', cheb, 0.0, wp, (G0 * (1 - rip) + tail) ** 2, (G0 * (1 + rip) - tail) ** 2, timeout)
        if 'stop' in parts:
            dl = delta0 - tail
            ck.band('stopband_power', cheb, ws, math.pi, None, dl * dl, timeout, vacuity=(None, dl * dl / 10 ** 12))
    return ck.result(workdir)


def stage_check(workdir, cfg, parts, tier, kinds=('dft',)):
    """every single-phase filter the real planner designs for cfg: stop-band / pass-band of the taps the stage really gets"""
    d = get_capture(workdir, cfg)
    ck = Check(cfg, 'stage_' + '_'.join(sorted(parts)))
    if d.get('error'):
        return {'status': 'broken', 'detail': 'configuration rejected by soxr_create: %s' % d['error']}
    bits = bits_of(d)
    recs = d['records']
    timeout = 600 if tier == 'quick' else 1800
    limit = MAX_TAPS_QUICK if tier == 'quick' else 1500
    n_checked = 0
    for i, r in enumerate(recs):
        if r['what'] != 'design' or r['h'] is None:
            continue
        if r['k'] > 0:
            # poly-phase prototype of a rational arbitrary-ratio stage, designed at `phases` x the stage rate (lsx_design_lpf divides
            # both band edges by the number of phases); short enough only for small L.  Stop band: 2^-bits of the DC gain; pass band: it
            # carries the roll-off compensation, so the class bound itself.
            taps = [hx(x) for x in r['h']]
            n = len(taps)
            tag = 'poly%d_n%d_ph%d' % (i, n, r['k'])
            ck.detail[tag] = {'Fp': r['Fp'], 'Fs': r['Fs'], 'Fn': r['Fn'], 'att_designed': r['att'], 'phases': r['k'], 'n': n}
            if n > (260 if tier == 'quick' else 600) or n % 2 == 0 or not all(taps[j] == taps[n - 1 - j] for j in range(n // 2)):
                ck.notes.append('%s: not decided (above the tap limit, even length or not symmetric)' % tag)
                continue
            n_checked += 1
            Fn = abs(r['Fn']) * r['k']
            dc = sum(taps)
            c0 = (n - 1) // 2
            cheb = amp_poly_symmetric({j - c0: taps[j] for j in range(n)})
            delta = Fraction(2) ** (-bits) * abs(dc)
            if 'stop' in parts and r['Fs'] / Fn < 1:
                ck.band(tag + '_stop', cheb, math.pi * r['Fs'] / Fn, math.pi, -delta, delta, timeout, vacuity=(-delta / 10 ** 6, delta / 10 ** 6))
            if 'pass' in parts:
                ripc = max(Fraction(class_ripple(d['q']['flags'], bits)), Fraction(2) ** (1 - bits))
                ck.band(tag + '_pass', cheb, 0.0, math.pi * r['Fp'] / Fn, dc * (1 - ripc), dc * (1 + ripc), timeout)
            continue
        nxt = recs[i + 1] if i + 1 < len(recs) and recs[i + 1]['what'] == 'phase' else None
        taps = [hx(s) for s in (nxt or r)['h']]
        n = len(taps)
        Fn = abs(r['Fn'])
        wp, ws = math.pi * r['Fp'] / Fn, math.pi * r['Fs'] / Fn
        dc = sum(taps)
        tag = 'stage%d_n%d%s' % (i, n, '_phase%g' % nxt['phase'] if nxt else '')
        ck.detail[tag] = {'Fp': r['Fp'], 'Fs': r['Fs'], 'Fn': r['Fn'], 'att_designed': r['att'], 'k': r['k'], 'n': n}
        if n > limit:
            ck.notes.append('%s: %d taps above the tap limit of this tier, not decided' % (tag, n))
            continue
        n_checked += 1
        delta = Fraction(2) ** (-bits) * abs(dc)
        # pass-band tolerance from the property: the roll-off class bound (shared by the stages of a plan: half of it per stage);
        # never tighter than the precision itself
        rip = max(Fraction(class_ripple(d['q']['flags'], bits)) / 2, Fraction(2) ** (1 - bits))
        if nxt is None:
            # linear phase: symmetric about (n-1)/2
            sym = all(taps[j] == taps[n - 1 - j] for j in range(n // 2))
            ck.require(tag + '_symmetric', sym, 'linear-phase design is not symmetric (C14/C04)')
            if n % 2 == 1:
                c = (n - 1) // 2
                g = {j - c: taps[j] for j in range(n)}
                cheb = amp_poly_symmetric(g)
                if 'stop' in parts and ws < math.pi:
                    ck.band(tag + '_stop', cheb, ws, math.pi, -delta, delta, timeout, vacuity=(-delta / 10 ** 6, delta / 10 ** 6))
                if 'pass' in parts:
                    ck.band(tag + '_pass', cheb, 0.0, wp, dc * (1 - rip), dc * (1 + rip), timeout)
                continue
        cheb = power_cheb(taps)
        if 'stop' in parts and ws < math.pi:
            ck.band(tag + '_stop_power', cheb, ws, math.pi, None, delta * delta, timeout, vacuity=(None, delta * delta / 10 ** 12))
        if 'pass' in parts:
            ck.band(tag + '_pass_power', cheb, 0.0, wp, (dc * (1 - rip)) ** 2, (dc * (1 + rip)) ** 2, timeout)
    # band EDGES are otherwise taken from the arguments of the design call (the stage gets what the planner asks for); one edge has an
    # independent oracle: when down-sampling, the LAST decimating single-phase stage is the final anti-alias filter, so in units of
    # its output (= the conversion's output) Nyquist frequency its stop band must begin no later than q_spec.stopband_begin
    if cfg.irate > cfg.orate:
        des = [r for r in recs if r['what'] == 'design' and r['k'] < 0]
        if des and abs(des[-1]['Fn']) >= 2:
            last = des[-1]
            n_checked += 1
            ck.detail['post_stage_edge'] = {'Fs': last['Fs'], 'Fn': last['Fn'], 'stopband_begin': d['q']['stopband_begin']}
            ck.require('post_stage_stop_edge', last['Fs'] <= d['q']['stopband_begin'] * (1 + 1e-12),
                       'the last decimating stage is designed with its stop band beginning at %.6g x the output Nyquist frequency, later than stopband_begin = %.6g: input just above the output Nyquist is not rejected and aliases into the top of the output band (C02)' % (last['Fs'], d['q']['stopband_begin']))
    if n_checked == 0:
        ck.notes.append('no single-phase designed filter within the tap limit for this configuration')
    res = ck.result(workdir)
    if n_checked == 0 and res['status'] == 'pass':
        res['status'] = 'broken'; res['detail'] = 'nothing to decide for this configuration (configuration list must be changed)'
    return res


def mirror_check(workdir, cfg_p, cfg_q, tier):
    """phase p and 100-p: the designed taps are exact mirror images; same length"""
    a, b = get_capture(workdir, cfg_p), get_capture(workdir, cfg_q)
    ck = Check(cfg_p, 'mirror')
    pa = [r for r in a['records'] if r['what'] == 'phase']
    pb = [r for r in b['records'] if r['what'] == 'phase']
    ck.require('count', len(pa) == len(pb) and len(pa) > 0, 'different number of phase-transformed filters (%d vs %d)' % (len(pa), len(pb)))
    for x, y in zip(pa, pb):
        ck.require('len', x['n'] == y['n'], 'phase %g and %g give different filter lengths %d / %d (C14)' % (x['phase'], y['phase'], x['n'], y['n']))
        if x['h'] and y['h'] and x['n'] == y['n']:
            ck.require('mirror', all(hx(x['h'][j]) == hx(y['h'][x['n'] - 1 - j]) for j in range(x['n'])), 'phase %g is not the time-mirror of phase %g (C14)' % (x['phase'], y['phase']))
            ck.require('post_len', x['post_len'] + y['post_len'] == x['n'] - 1, 'peak positions of phase %g / %g are not mirror images (post_len %d + %d != n-1 = %d) (C14)' % (x['phase'], y['phase'], x['post_len'], y['post_len'], x['n'] - 1))
    return ck.result(workdir)


def obl(name, fn, desc, bounds, tiers=('quick', 'thorough'), kf=None):
    return runner.Obl(name=name, py=fn, desc=desc, bounds=bounds, tiers=tiers, native=False, kf=kf,
                      funcs=['cr.c:_soxr_init', 'cr.c:dft_stage_init', 'filter.c:lsx_design_lpf', 'filter.c:lsx_make_lpf', 'filter.c:lsx_kaiser_params',
                             'filter.c:lsx_kaiser_beta', 'filter.c:lsx_fir_to_phase', 'soxr.c:soxr_quality_spec', 'cr.c:dft_stage_fn'],
                      stubs=['taps / impulse responses are obtained by CONCRETE native execution of the real library (hybrid: the symbolic variable is the frequency)'])


DP = 16
QN = {0: 'QQ', 1: 'LQ', 2: 'MQ', 3: '16b', 4: 'HQ', 5: '24b', 6: 'VHQ', 7: '32b'}


def e2e_obl(cfg, parts, tier, tier_list=('quick', 'thorough'), kf=None):
    name = 'e2e_%s_%s' % ('+'.join(sorted(parts)), cfg.name)
    return obl(name, lambda wd, cfg=cfg, parts=parts, tier=tier: e2e_check(wd, cfg, set(parts), tier),
               'whole real conversion %s: high-rate prototype from M impulse runs; %s decided over the continuum of frequencies' % (cfg.name, ', '.join(sorted(parts))),
               'configuration %s; all frequencies of the band (exact); truncated support + L1 tail bound' % cfg.name, tier_list, kf=kf)


def stage_obl(cfg, parts, tier, tier_list=('quick', 'thorough')):
    name = 'stage_%s_%s' % ('+'.join(sorted(parts)), cfg.name)
    return obl(name, lambda wd, cfg=cfg, parts=parts, tier=tier: stage_check(wd, cfg, set(parts), tier),
               'every single-phase filter the real _soxr_init designs for %s (taps intercepted with ld --wrap): %s over the continuum' % (cfg.name, ', '.join(sorted(parts))),
               'configuration %s; band edges as handed to lsx_design_lpf, attenuation/ripple bound from the property (2^-bits per stage); taps <= %d' % (cfg.name, MAX_TAPS_QUICK), tier_list)


def half_band_tables():
    """(n, coefs as Fractions of the decimal literals, att in dB) parsed from the current half-coefs.h / cr-core.c"""
    import re
    src = open(os.path.join(runner.REPO, 'src', 'half-coefs.h')).read()
    core = open(os.path.join(runner.REPO, 'src', 'cr-core.c')).read()
    out = []
    for m in re.finditer(r'half_fir_coefs_(\d+)\[\]\s*=\s*\{([^}]*)\}', src):
        n = int(m.group(1))
        vals = [Fraction(v) for v in re.findall(r'[-+]?\d+\.\d+e[-+]\d+', m.group(2))]
        am = re.search(r'\{\s*%d\s*,\s*half_fir_coefs_%d\s*,\s*h%d\s*,\s*0\s*,\s*([\d.]+)f\s*\}' % (n, n, n), core)
        out.append((n, vals, float(am.group(1)) if am else None))
    return out


def half_band_check(workdir, n, part, tier):
    """the pre-computed 2:1 decimation filters: zero-phase response 0.5 + 2 sum c_j cos((2j+1) w); stop band [0.75 pi, pi] against the
    attenuation promised by the selection table half_firs[] (find_half_fir picks a table by that number), pass band [0, 0.25 pi]"""
    tabs = {t[0]: t for t in half_band_tables()}
    cfgd = Cfg(2, 1, name='half_band_%d' % n)
    ck = Check(cfgd, 'half_%s' % part)
    if n not in tabs:
        return {'status': 'broken', 'detail': 'half_fir_coefs_%d not found in half-coefs.h' % n}
    _, vals, att = tabs[n]
    ck.require('table_len', len(vals) == n, 'half_fir_coefs_%d has %d entries' % (n, len(vals)))
    ck.require('att_listed', att is not None, 'no attenuation entry for h%d in half_firs[]' % n)
    if ck.failed:
        return ck.result(workdir)
    cheb = [Fraction(0)] * (2 * n)
    cheb[0] = Fraction(1, 2)
    for j, v in enumerate(vals):
        cheb[2 * j + 1] = 2 * v
    delta = Fraction(10 ** (-(att - 0.05) / 20.))        # 0.05 dB tolerance on the tabulated figure
    if part == 'stop':
        ck.band('h%d_stop' % n, cheb, 0.75 * math.pi, math.pi, -delta, delta, 120, vacuity=(-delta / 2, delta / 2))
    else:
        ck.band('h%d_pass' % n, cheb, 0.0, 0.25 * math.pi, 1 - delta, 1 + delta, 120, vacuity=(1 - delta / 1000, 1 + delta / 1000))
        ck.require('dc', abs(Fraction(1, 2) + 2 * sum(vals) - 1) <= delta, 'DC gain of the half-band filter is not 1 (C12)')
    ck.detail['att_db'] = att
    return ck.result(workdir)


def half_band_obls(tier, part='stop'):
    out = []
    for n in (7, 8, 9, 10, 11, 12, 13):
        out.append(runner.Obl(name='halfband_h%d_%s' % (n, part), py=lambda wd, n=n, part=part, tier=tier: half_band_check(wd, n, part, tier),
                              desc='half_fir_coefs_%d of half-coefs.h: %s band over the continuum against the attenuation listed in half_firs[] (cr-core.c)' % (n, part),
                              bounds='all frequencies of the band (exact polynomial)', native=False, funcs=['half-coefs.h:half_fir_coefs_%d' % n, 'cr-core.c:half_firs']))
    return out
