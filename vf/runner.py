"""Obligation runner: goto-cc + cbmc on harnesses that include the real sources
from /repo, vacuity witness, known-finding matching, native replay, evidence.

Everything is rebuilt from /repo's working tree on every run into a scratch
directory that is removed afterwards."""
import concurrent.futures as cf
import dataclasses
import json
import os
import re
import resource
import shutil
import signal
import subprocess
import sys
import tempfile
import time
from dataclasses import dataclass, field
from typing import Callable, List, Optional

VERIF = os.path.dirname(os.path.dirname(os.path.abspath(__file__)))
REPO = os.environ.get('VF_REPO', '/repo')
HARNESS = os.path.join(VERIF, 'harness')
KF_FILE = os.path.join(VERIF, 'known_findings.txt')
GUARD = 'SOXR_VERIF'

CONFIG_DEFAULTS = dict(AVCODEC_FOUND=0, AVUTIL_FOUND=0, WITH_PFFFT=1, HAVE_FENV_H=1,
                       HAVE_STDBOOL_H=1, HAVE_STDINT_H=1, HAVE_LRINT=1, HAVE_BIGENDIAN=0,
                       WITH_CR32=1, WITH_CR32S=1, WITH_CR64=1, WITH_CR64S=1, WITH_VR32=1,
                       WITH_HI_PREC_CLOCK=1, WITH_FLOAT_STD_PREC_CLOCK=0, WITH_DEV_TRACE=1)

LIB_SOURCES = ['soxr.c', 'data-io.c', 'dbesi0.c', 'filter.c', 'cr.c', 'cr32.c', 'cr32s.c',
               'cr64.c', 'cr64s.c', 'fft4g32.c', 'fft4g64.c', 'pffft32s.c', 'pffft64s.c',
               'util32s.c', 'util64s.c', 'vr32.c']


def gen_config(dirpath):
    """soxr-config.h as the real build has it (taken from the cmake template of
    the current tree with the option values of the pinned build)."""
    tmpl = open(os.path.join(REPO, 'soxr-config.h.in')).read()
    vals = dict(CONFIG_DEFAULTS)
    built = os.path.join(REPO, '_build', 'soxr-config.h')
    if os.path.exists(built):
        for m in re.finditer(r'#define\s+(\w+)\s+(\d+)', open(built).read()):
            vals[m.group(1)] = int(m.group(2))
    out = re.sub(r'#cmakedefine01\s+(\w+)', lambda m: '#define %s %d' % (m.group(1), vals.get(m.group(1), 0)), tmpl)
    os.makedirs(dirpath, exist_ok=True)
    with open(os.path.join(dirpath, 'soxr-config.h'), 'w') as f:
        f.write(out)


@dataclass
class Obl:
    name: str
    src: str = ''                    # harness source, relative to harness/
    defs: List[str] = field(default_factory=list)
    ccflags: List[str] = field(default_factory=list)
    extra_srcs: List[str] = field(default_factory=list)  # more TUs (absolute or repo-relative 'src/x.c')
    native_srcs: List[str] = field(default_factory=list)  # TUs linked into the native replay build only
    unwind: Optional[int] = None
    unwindset: List[str] = field(default_factory=list)
    checks: str = 'full'             # 'full' | 'basic' | 'none'
    extra: List[str] = field(default_factory=list)
    timeout: int = 300
    mem_gb: int = 10
    kf: Optional[str] = None         # known-finding probe: run without -D<kf>, failure expected
    funcs: List[str] = field(default_factory=list)
    bounds: str = ''
    stubs: List[str] = field(default_factory=list)
    desc: str = ''
    malloc_may_fail: bool = False
    ndebug: bool = True
    native: bool = True              # native replay possible
    py: Optional[Callable] = None    # python obligation (E3/E4): fn(workdir) -> result dict
    tiers: tuple = ('quick', 'thorough')
    object_bits: Optional[int] = None
    slice: bool = True
    unwinding_assertions: bool = True    # False: paths beyond the unwinding bound are cut (the obligation's assertions sit before the first loop)
    witness_re: Optional[str] = None     # reachability witness other than VF_WITNESS: a property (regex on its key) that MUST fail
    instrument: List[str] = field(default_factory=list)   # goto-instrument arguments applied to the goto binary before cbmc (e.g. --replace-calls f:g)
    backend: Optional[str] = None     # 'cvc5int': cbmc --cvc5 with cvc5 started as `cvc5 --solve-bv-as-int=sum` (mul/div by constants)
    ignore_props: List[str] = field(default_factory=list)  # regexes on 'file:function desc' that are not part of the claim


def load_kf():
    """known_findings.txt ->  {'finding': [entries], 'fixed': [entries]}"""
    out = {'finding': [], 'fixed': []}
    if not os.path.exists(KF_FILE):
        return out
    for line in open(KF_FILE):
        line = line.strip()
        if not line or line.startswith('#'):
            continue
        m = re.match(r'(finding|fixed):\s*property=(\w+)\s+(.*)', line)
        if not m:
            continue
        kind, prop, rest = m.groups()
        e = {'property': prop, 'text': rest}
        for k, v in re.findall(r'(\w+)=("(?:[^"]*)"|\S+)', rest):
            e[k] = v.strip('"')
        out[kind].append(e)
    return out


def kf_defs(prop_id):
    return ['-D%s' % e['id'] for e in load_kf()['finding'] if e['property'] == prop_id and 'id' in e]


def _limit(mem_gb):
    def f():
        os.setsid()
        if mem_gb:
            lim = int(mem_gb * (1 << 30))
            resource.setrlimit(resource.RLIMIT_AS, (lim, lim))
    return f


def run_cmd(cmd, timeout, mem_gb=10, cwd=None, env=None, stdout=None):
    t0 = time.time()
    p = subprocess.Popen(cmd, stdout=stdout or subprocess.PIPE, stderr=subprocess.PIPE, cwd=cwd,
                         preexec_fn=_limit(mem_gb), env=env)
    try:
        out, err = p.communicate(timeout=timeout)
        to = False
    except subprocess.TimeoutExpired:
        try:
            os.killpg(p.pid, signal.SIGKILL)
        except ProcessLookupError:
            pass
        out, err = p.communicate()
        to = True
    return p.returncode, out, err, time.time() - t0, to


def cc_flags(o, workdir, native=False):
    fl = ['-DSOXR_LIB', '-std=gnu89', '-I' + os.path.join(workdir, 'gen'), '-I' + os.path.join(REPO, 'src'),
          '-I' + os.path.join(HARNESS, 'include'), '-D' + GUARD]
    if o.ndebug:
        fl.append('-DNDEBUG')
    cc = list(o.ccflags)
    if native:      # the native replay runs the REAL rint.h asm: drop the displacement of rint.h by the x87 model
        cc = [x for x in cc if x not in ('-Dsoxr_rint_included', '-include', 'x87_model.h')]
    return fl + list(o.defs) + cc


def src_path(s):
    if os.path.isabs(s):
        return s
    if s.startswith('src/'):
        return os.path.join(REPO, s)
    return os.path.join(HARNESS, s)


CHECK_FLAGS_FULL = ['--signed-overflow-check', '--undefined-shift-check',
                    '--conversion-check', '--div-by-zero-check', '--float-div-by-zero-check']


# integer-to-integer conversions are defined or implementation-defined in C (never undefined behaviour, and not
# what the property's "out-of-range conversion" means); cbmc's --conversion-check is used for float->integer only
DEFAULT_IGNORE = [r'arithmetic overflow on (un)?signed to (un)?signed type conversion']


def cbmc_cmd(o, gb):
    cmd = ['cbmc', gb, '--function', 'vf_harness', '--json-ui', '--verbosity', '8', '--drop-unused-functions']
    if o.unwinding_assertions:
        cmd.append('--unwinding-assertions')
    if o.slice:
        cmd.append('--slice-formula')
    if not o.malloc_may_fail:
        cmd.append('--no-malloc-may-fail')
    else:
        cmd += ['--malloc-may-fail', '--malloc-fail-null']
    if o.checks == 'full':
        cmd += CHECK_FLAGS_FULL
    elif o.checks == 'none':
        cmd += ['--no-pointer-check', '--no-bounds-check', '--no-div-by-zero-check',
                '--no-signed-overflow-check', '--no-undefined-shift-check', '--no-pointer-primitive-check']
    if o.unwind is not None:
        cmd += ['--unwind', str(o.unwind)]
    if o.unwindset:
        cmd += ['--unwindset', ','.join(o.unwindset)]
    if o.object_bits:
        cmd += ['--object-bits', str(o.object_bits)]
    return cmd + list(o.extra)


def parse_cbmc(out):
    """-> (props, stats, errors) from cbmc --json-ui output"""
    props, errors = [], []
    stats = {'vccs': 0, 'vccs_remaining': 0, 'variables': 0, 'clauses': 0, 'solver_s': 0.0, 'status': None}
    try:
        msgs = json.loads(out, strict=False)
    except Exception as e:
        # truncated output (killed): try to salvage nothing
        return props, stats, ['unparsable cbmc output: %s' % e]
    for m in msgs:
        if not isinstance(m, dict):
            continue
        if 'result' in m:
            props = m['result']
        elif 'cProverStatus' in m:
            stats['status'] = m['cProverStatus']
        elif m.get('messageType') == 'ERROR':
            errors.append(m.get('messageText', ''))
        elif m.get('messageType') == 'STATUS-MESSAGE':
            t = m.get('messageText', '')
            mm = re.search(r'Generated (\d+) VCC\(s\), (\d+) remaining', t)
            if mm:
                stats['vccs'], stats['vccs_remaining'] = int(mm.group(1)), int(mm.group(2))
            mm = re.search(r'size of program expression: (\d+) steps', t)
            if mm:
                stats['steps'] = int(mm.group(1))
            mm = re.search(r'(\d+) variables, (\d+) clauses', t)
            if mm:
                stats['variables'] = max(stats['variables'], int(mm.group(1)))
                stats['clauses'] = max(stats['clauses'], int(mm.group(2)))
            mm = re.search(r'Runtime Solver: ([\d.e+-]+)s', t)
            if mm:
                stats['solver_s'] += float(mm.group(1))
            mm = re.search(r'Runtime decision procedure: ([\d.e+-]+)s', t)
            if mm:
                stats['decision_s'] = float(mm.group(1))
    return props, stats, errors


def prop_key(p):
    sl = p.get('sourceLocation', {}) or {}
    return '%s:%s:%s %s' % (os.path.basename(sl.get('file', '?')), sl.get('function', '?'), sl.get('line', '?'),
                            p.get('description', ''))


def trace_inputs(trace):
    """last value of every harness input (variables named in_*) in a cbmc trace"""
    vals = {}
    for s in trace or []:
        if s.get('stepType') != 'assignment':
            continue
        lhs = s.get('lhs', '')
        m = re.match(r'^(in_\w+)(?:\[(\d+)l?\])?$', lhs)
        if not m:
            continue
        v = s.get('value', {})
        if 'binary' in v:
            key = m.group(1) + ('[%s]' % m.group(2) if m.group(2) is not None else '')
            vals[key] = int(v['binary'], 2)
        elif 'elements' in v and m.group(2) is None:
            for e in v['elements']:
                if 'binary' in e.get('value', {}):
                    vals['%s[%d]' % (m.group(1), e['index'])] = int(e['value']['binary'], 2)
    return vals


def write_replay(path, prop_id, o, failed, inputs):
    os.makedirs(os.path.dirname(path), exist_ok=True)
    with open(path, 'w') as f:
        f.write('#property %s\n#obligation %s\n' % (prop_id, o.name))
        for k in failed[:5]:
            f.write('#failed %s\n' % k)
        for k, v in sorted(inputs.items()):
            f.write('%s %x\n' % (k, v))


def native_replay(o, workdir, replay_file, tag='n'):
    """build the harness natively (gcc, ASan+UBSan) against the real sources and run it on the inputs"""
    exe = os.path.join(workdir, 'native_%s_%s' % (re.sub(r'\W', '_', o.name), tag))
    srcs = [src_path(o.src)] + [src_path(s) for s in list(o.extra_srcs) + list(o.native_srcs)]
    cmd = ['gcc', '-DVF_NATIVE', '-g', '-O0', '-fsanitize=address,undefined', '-fno-sanitize-recover=undefined',
           '-ffunction-sections', '-fdata-sections', '-Wl,--gc-sections',   # unreached library code may reference units that are not linked
           '-w', '-o', exe] + cc_flags(o, workdir, native=True) + srcs + ['-lm']
    rc, out, err, dt, to = run_cmd(cmd, 300, 16)
    if rc != 0:
        return {'status': 'build-failed', 'log': err.decode(errors='replace')[-2000:]}
    env = dict(os.environ, VF_REPLAY=replay_file, ASAN_OPTIONS='detect_leaks=0:abort_on_error=0',
               UBSAN_OPTIONS='print_stacktrace=1')
    rc, out, err, dt, to = run_cmd([exe], 60, None, env=env)      # no address-space limit: ASan reserves terabytes of shadow memory
    log = (out or b'').decode(errors='replace')[-1500:] + (err or b'').decode(errors='replace')[-3000:]
    if to:
        st = 'reproduced-timeout'
    elif rc == 77:
        st = 'assumption-not-met'
    elif rc == 0:
        st = 'not-reproduced'
    elif 'VF-ASSERT-FAILED' in log or 'ERROR: AddressSanitizer' in log or 'runtime error:' in log or rc in (-11, -6, -8, 139, 134, 136):
        st = 'reproduced'
    else:
        st = 'replay-error'      # the replay binary did not run properly: says nothing about the counterexample
    return {'status': st, 'rc': rc, 'log': log}


def run_obl(prop_id, o, workdir, extra_defs):
    """-> result dict. status: pass | fail | inconclusive | broken"""
    t0 = time.time()
    res = {'name': o.name, 'desc': o.desc, 'kf_probe': o.kf, 'status': 'broken', 'failed': [], 'nprops': 0,
           'solver_s': 0.0, 'wall_s': 0.0, 'witness_ok': False, 'bounds': o.bounds, 'functions': [],
           'vccs': 0, 'vccs_remaining': 0}
    if o.py:
        try:
            r = o.py(workdir)
        except Exception as e:  # a crashing encoder is a broken check, never a pass
            import traceback
            r = {'status': 'broken', 'detail': 'exception: %s\n%s' % (e, traceback.format_exc()[-1500:])}
        res.update(r)
        res['wall_s'] = round(time.time() - t0, 2)
        return res
    o = dataclasses.replace(o, defs=list(o.defs) + [d for d in extra_defs if d != '-D%s' % o.kf])
    od = os.path.join(workdir, re.sub(r'\W', '_', o.name))
    os.makedirs(od, exist_ok=True)
    gb = os.path.join(od, 'h.gb')
    srcs = [src_path(o.src)] + [src_path(s) for s in o.extra_srcs]
    cmd = ['goto-cc', '-o', gb] + cc_flags(o, workdir) + srcs
    rc, out, err, dt, to = run_cmd(cmd, 300, 16)
    if rc != 0 or not os.path.exists(gb):
        # the harness includes the real sources: a tree that does not compile is reported as such
        res.update(status='broken', detail='goto-cc failed: ' + err.decode(errors='replace')[-1500:])
        res['wall_s'] = round(time.time() - t0, 2)
        return res
    if o.instrument:
        gb2 = os.path.join(od, 'hi.gb')
        rc, out, err, dt, to = run_cmd(['goto-instrument'] + list(o.instrument) + [gb, gb2], 300, 16)
        if rc != 0 or not os.path.exists(gb2):
            res.update(status='broken', detail='goto-instrument failed: ' + (out or b'').decode(errors='replace')[-800:] + err.decode(errors='replace')[-800:])
            res['wall_s'] = round(time.time() - t0, 2)
            return res
        gb = gb2
    outf = os.path.join(od, 'out.json')
    benv = None
    if o.backend == 'cvc5int':
        shim = os.path.join(od, 'shim')
        os.makedirs(shim, exist_ok=True)
        with open(os.path.join(shim, 'cvc5'), 'w') as f:
            f.write('#!/bin/sh\nexec %s --solve-bv-as-int=sum "$@"\n' % shutil.which('cvc5'))
        os.chmod(os.path.join(shim, 'cvc5'), 0o755)
        benv = dict(os.environ, PATH=shim + os.pathsep + os.environ.get('PATH', ''))
        o = dataclasses.replace(o, extra=list(o.extra) + ['--cvc5'])
    with open(outf, 'wb') as fo:
        rc, _, err, dt, to = run_cmd(cbmc_cmd(o, gb), o.timeout, o.mem_gb, stdout=fo, env=benv)
    res['cbmc_s'] = round(dt, 2)
    if to:
        res.update(status='inconclusive', detail='timeout after %ds' % o.timeout)
        res['wall_s'] = round(time.time() - t0, 2)
        return res
    props, stats, errors = parse_cbmc(open(outf, 'rb').read().decode(errors='replace'))
    res.update(nprops=len(props), solver_s=round(stats['solver_s'], 3), vccs=stats['vccs'],
               vccs_remaining=stats['vccs_remaining'], variables=stats['variables'], clauses=stats['clauses'],
               steps=stats.get('steps', 0))
    if not props:
        detail = '; '.join(errors)[-800:] or err.decode(errors='replace')[-800:]
        st = 'inconclusive' if rc in (-9, 137, -6, 134, 6) or 'memory' in detail.lower() or 'bad_alloc' in detail else 'broken'
        res.update(status=st, detail='cbmc rc=%s: %s' % (rc, detail))
        res['wall_s'] = round(time.time() - t0, 2)
        return res
    funcs = set()
    failed, witness_failed = [], False
    ign = [re.compile(x) for x in list(o.ignore_props) + DEFAULT_IGNORE]
    for p in props:
        sl = p.get('sourceLocation', {}) or {}
        f = sl.get('file', '')
        if REPO + '/src' in os.path.abspath(f) if f else False:
            funcs.add('%s:%s' % (os.path.basename(f), sl.get('function')))
        if 'VF_WITNESS' in p.get('description', ''):
            witness_failed = witness_failed or p['status'] == 'FAILURE'      # several exits: any reachable harness end is a witness
            continue
        if o.witness_re and p['status'] == 'FAILURE' and re.search(o.witness_re, prop_key(p)):
            witness_failed = True
            continue
        if p['status'] != 'SUCCESS':
            k = prop_key(p)
            if any(r.search(k) for r in ign):
                continue
            failed.append(p)
    res['functions'] = sorted(funcs)
    real_fail = [p for p in failed if p['status'] == 'FAILURE']
    res['witness_ok'] = witness_failed
    harness_unwind = [p for p in real_fail if 'unwinding assertion' in p.get('description', '')
                      and REPO + '/src' not in os.path.abspath((p.get('sourceLocation') or {}).get('file', ''))]
    if harness_unwind:   # a bound of the harness itself is too small: the check is wrong, not the code
        res.update(status='broken', detail='harness loop bound too small: ' + '; '.join(prop_key(p) for p in harness_unwind[:3]))
    elif real_fail:
        res['status'] = 'fail'
        res['failed'] = [prop_key(p) for p in real_fail]
        # counterexample: second run restricted to the first failed property, with --trace
        pid = real_fail[0].get('property')
        tf = os.path.join(od, 'trace.json')
        with open(tf, 'wb') as fo:
            run_cmd(cbmc_cmd(o, gb) + ['--trace', '--property', pid], o.timeout, o.mem_gb, stdout=fo, env=benv)
        tprops, _, _ = parse_cbmc(open(tf, 'rb').read().decode(errors='replace'))
        for p in tprops:
            if p.get('property') == pid and p.get('trace'):
                res['inputs'] = trace_inputs(p['trace'])
                res['cex_for'] = prop_key(p)
                break
    elif failed:  # UNKNOWN / ERROR without a FAILURE
        res.update(status='inconclusive', detail='cbmc status ' + ','.join(sorted({p['status'] for p in failed})))
    elif not witness_failed:
        res.update(status='broken', detail='vacuous: the harness end (VF_WITNESS) is not reachable')
    else:
        res['status'] = 'pass'
    res['wall_s'] = round(time.time() - t0, 2)
    res['_obl'] = o
    return res


def check_property(prop_id, obls, tier, explanation, level='model_checking', trusted=None, assumptions=None,
                   jobs=None, replay_dir=None, prepare=None):
    """run all obligations of a property, print verdict lines, write evidence; returns exit code"""
    t0 = time.time()
    seed = int(os.environ.get('VERIF_SEED', '0') or 0)
    obls = [o for o in obls if tier in o.tiers]
    seen, uniq = set(), []
    for o in obls:      # an obligation listed twice (same name) would share a work directory: keep the first
        if o.name not in seen:
            seen.add(o.name); uniq.append(o)
    obls = uniq
    kfs = load_kf()
    my_kf = {e['id']: e for e in kfs['finding'] if e['property'] == prop_id and 'id' in e}
    extra_defs = ['-D%s' % k for k in my_kf]
    workdir = tempfile.mkdtemp(prefix='vf_%s_' % prop_id, dir=os.environ.get('VF_TMP', None))
    gen_config(os.path.join(workdir, 'gen'))
    if prepare:
        prepare(workdir)      # property-specific generated inputs (encodings regenerated from the current sources)
    jobs = jobs or int(os.environ.get('VF_JOBS', '12'))
    results = []
    try:
        with cf.ThreadPoolExecutor(max_workers=jobs) as ex:
            futs = {ex.submit(run_obl, prop_id, o, workdir, extra_defs): o for o in obls}
            for fu in cf.as_completed(futs):
                results.append(fu.result())
        results.sort(key=lambda r: [o.name for o in obls].index(r['name']))
        rc = 0
        violations, known, inconclusive, broken = [], [], [], []
        replay_dir = replay_dir or os.path.join(VERIF, 'replays', prop_id)
        for r in results:
            o = r.pop('_obl', None)
            if r['kf_probe']:
                e = my_kf.get(r['kf_probe'])
                if r['status'] == 'fail':
                    pat = re.compile(e['where']) if e and 'where' in e else None
                    unexpected = [k for k in r['failed'] if not (pat and pat.search(k))]
                    # 'sig': the probe differs from its proved twin ONLY by the excluded defect, so once the defect's signature
                    # assertion is among the failures, the other failures of the probe are its consequences
                    if e and 'sig' in e and any(re.search(e['sig'], k) for k in r['failed']):
                        unexpected = []
                    if e and not unexpected:
                        known.append((r, e))
                        continue
                    r['failed'] = unexpected or r['failed']
                elif r['status'] == 'pass':
                    r['note'] = 'known-finding probe passes: defect not present in this tree'
                    continue
            if r['status'] == 'fail':
                rp = os.path.join(replay_dir, re.sub(r'\W', '_', r['name']) + '.replay')
                oo = o or next(x for x in obls if x.name == r['name'])
                if 'replay_written' in r:
                    rp = r['replay_written']
                else:
                    write_replay(rp, prop_id, oo, r['failed'], r.get('inputs', {}))
                if oo.native and not oo.py and r.get('inputs') is not None:
                    nr = native_replay(dataclasses.replace(oo, defs=list(oo.defs)), workdir, rp)
                    r['native'] = nr['status']
                    r['native_log'] = nr.get('log', '')[-1200:]
                violations.append((r, rp))
            elif r['status'] == 'inconclusive':
                inconclusive.append(r)
            elif r['status'] == 'broken':
                broken.append(r)
        for r, e in known:
            print('KNOWN-FINDING: property=%s %s [%s: %s]' % (prop_id, e['text'], r['name'], '; '.join(r['failed'][:2])))
        for r, rp in violations:
            print('VIOLATION property=%s replay=%s obligation=%s native=%s failed="%s"' % (
                prop_id, rp, r['name'], r.get('native', 'not-run'), '; '.join(r['failed'][:3])))
            rc = 1
        for r in inconclusive:
            print('INCONCLUSIVE property=%s obligation=%s %s' % (prop_id, r['name'], r.get('detail', '')))
            rc = rc or 3
        for r in broken:
            print('BROKEN property=%s obligation=%s %s' % (prop_id, r['name'], r.get('detail', '')[:1500]))
            rc = rc or 2
        npass = sum(1 for r in results if r['status'] == 'pass')
        print('%s tier=%s obligations=%d pass=%d known=%d violations=%d inconclusive=%d broken=%d wall=%.0fs' % (
            prop_id, tier, len(results), npass, len(known), len(violations), len(inconclusive), len(broken),
            time.time() - t0))
        if not os.environ.get('VF_NO_EVIDENCE'):
            write_evidence(prop_id, tier, seed, level, results, obls, explanation, trusted or [], assumptions or [],
                           known, violations, time.time() - t0)
        return rc
    finally:
        shutil.rmtree(workdir, ignore_errors=True)


def write_evidence(prop_id, tier, seed, level, results, obls, explanation, trusted, assumptions, known,
                   violations, wall):
    queries = sum(r.get('nprops', 0) + r.get('queries', 0) for r in results)
    nontrivial = sum(r.get('vccs_remaining', 0) + r.get('queries_nontrivial', 0) for r in results)
    funcs = sorted({f for r in results for f in r.get('functions', [])} |
                   {f for o in obls for f in o.funcs})
    samples = []
    for r in results:
        s = {k: r.get(k) for k in ('name', 'desc', 'status', 'bounds', 'nprops', 'vccs', 'vccs_remaining',
                                   'variables', 'clauses', 'steps', 'solver_s', 'cbmc_s', 'wall_s', 'witness_ok',
                                   'kf_probe', 'failed', 'native', 'detail', 'note', 'extra') if r.get(k) not in (None, [], '')}
        samples.append(s)
    stubs = sorted({s for o in obls for s in o.stubs})
    ev = {
        'property_id': prop_id, 'tier': tier, 'seed': seed, 'level': level,
        'coverage': {
            'evaluations': max(queries, 1),
            'distinct_nontrivial': nontrivial,
            'rule': 'one evaluation = one solver-decided proof obligation (a cbmc property instance or a z3 query); '
                    'non-trivial = verification conditions that remain after cbmc simplification / z3 queries that '
                    'reached the solver (counted from the tools\' statistics); obligations are distinct by construction '
                    '(different harness, bound or source location)',
            'samples': samples,
            'obligations': len(results),
            'discharged': sum(1 for r in results if r['status'] == 'pass'),
            'checker_cmd': 'goto-cc <harness including /repo/src/*.c> && cbmc --function vf_harness --unwinding-assertions ...; python z3 encoders',
            'trusted_base': trusted + ['cbmc 6.11.0 (goto-cc, symex, SAT back end)', 'z3'],
            'explanation': explanation,
            'functions_encoded': funcs,
            'stubs': stubs,
            'solver_s': round(sum(r.get('solver_s', 0) or 0 for r in results), 2),
            'known_findings_reported': ['%s: %s' % (r['name'], e.get('id')) for r, e in known],
            'inconclusive': [r['name'] for r in results if r['status'] == 'inconclusive'],
            'exhaustive': False,
            'states': max(1, sum(r.get('steps', 0) or 0 for r in results)),
            'transitions': max(1, sum(r.get('vccs', 0) or 0 for r in results)),
            'traces_validated_against_impl': sum(1 for r in results if r.get('native') in ('reproduced', 'reproduced-timeout', 'not-reproduced')),
            'states_rule': 'bounded model checking has no explicit state graph: states = SSA steps of the unwound programs (cbmc: size of program '
                           'expression), transitions = verification conditions generated from them, traces_validated_against_impl = counterexample '
                           'traces replayed against a native ASan/UBSan build of the same sources in this run (0 when no obligation failed)',
        },
        'assumptions': assumptions + ['stubs listed in coverage.stubs are part of the claim'],
        'wall_s': round(wall, 2),
        'violations': len(violations),
    }
    os.makedirs(os.path.join(VERIF, 'evidence'), exist_ok=True)
    with open(os.path.join(VERIF, 'evidence', prop_id + '.json'), 'w') as f:
        json.dump(ev, f, indent=1, default=str)


def replay_file(prop_id, path, obls, prepare=None):
    """bin/check <ID> --replay <file>: native run of the recorded counterexample"""
    name = None
    for line in open(path):
        if line.startswith('#obligation '):
            name = line.split(None, 1)[1].strip()
    o = next((x for x in obls if x.name == name), None)
    if o is None or o.py:
        print('replay: obligation %r has no native harness; the file itself describes the counterexample' % name)
        print(open(path).read()[:4000])
        return 0
    workdir = tempfile.mkdtemp(prefix='vf_replay_')
    try:
        gen_config(os.path.join(workdir, 'gen'))
        if prepare:
            prepare(workdir)
        defs = kf_defs(prop_id)
        o2 = dataclasses.replace(o, defs=list(o.defs) + [d for d in defs if d != '-D%s' % o.kf])
        nr = native_replay(o2, workdir, path)
        print('replay %s: %s' % (name, nr['status']))
        print(nr.get('log', ''))
        return 1 if nr['status'].startswith('reproduced') else 0
    finally:
        shutil.rmtree(workdir, ignore_errors=True)
