/* Symbolic-impulse lemma for the integer-indexed kernels of cr-core.c (half-band hN, rational poly-phase vpoly0 / u100_0 / U100_0):
 * the input window is one-hot at a SYMBOLIC position (all other samples +0.0), so every partial sum is exact and the single
 * output sample must equal the one table coefficient that the filter definition pairs with that sample (or 0 / the centre tap):
 *   half-band:  y[i] = 0.5 x[2i] + sum_j c_j (x[2i-(2j+1)] + x[2i+(2j+1)])          (decimate-by-2 FIR, half-coefs.h tables)
 *   poly-phase: y = sum_j coefs[N*phase + j] x[pos + j]
 * This decides that EVERY tap of the table is applied, to the right sample - for all positions - for the portable engines and
 * (with exact models of the SSE shuffles) for the SIMD half-band kernels, incl. their shuffle immediates. */
#include "vf.h"
#include <string.h>
#include <stdlib.h>
#include <math.h>
#ifndef VF_ENGINE_C
#define VF_ENGINE_C "cr32.c"
#endif
#include VF_ENGINE_C
#if defined VF_SIMD_MODELS && !defined VF_NATIVE
typedef float vf_v4sf __attribute__((vector_size(16)));
vf_v4sf __builtin_ia32_movhlps(vf_v4sf a, vf_v4sf b) { vf_v4sf r; r[0] = b[2]; r[1] = b[3]; r[2] = a[2]; r[3] = a[3]; return r; }
vf_v4sf __builtin_ia32_movlhps(vf_v4sf a, vf_v4sf b) { vf_v4sf r; r[0] = a[0]; r[1] = a[1]; r[2] = b[0]; r[3] = b[1]; return r; }
vf_v4sf __builtin_ia32_shufps(vf_v4sf a, vf_v4sf b, int imm) { vf_v4sf r; r[0] = a[imm & 3]; r[1] = a[(imm >> 2) & 3]; r[2] = b[(imm >> 4) & 3]; r[3] = b[(imm >> 6) & 3]; return r; }
vf_v4sf __builtin_ia32_addss(vf_v4sf a, vf_v4sf b) { a[0] = a[0] + b[0]; return a; }
vf_v4sf __builtin_ia32_mulss(vf_v4sf a, vf_v4sf b) { a[0] = a[0] * b[0]; return a; }
typedef float vf_v2sf __attribute__((vector_size(8)));
vf_v4sf __builtin_ia32_loadlps(vf_v4sf a, vf_v2sf const * p) { a[0] = (*p)[0]; a[1] = (*p)[1]; return a; }
#endif
#ifndef VF_HN
#define VF_HN 8
#endif
#define CAT_(a, b) a##b
#define CAT(a, b) CAT_(a, b)
#define KFN CAT(h, VF_HN)
#define KTAB CAT(half_fir_coefs_, VF_HN)
#define WIN (4 * VF_HN + 8)
static sample_t inmem[WIN] __attribute__((aligned(16))), outmem[8];

VF_MAIN
{
  IN_UINT(in_t);
  static stage_t s; static fifo_t out; int pre = 2 * VF_HN, d, i;
  sample_t y, expect;
  VF_ASSUME(in_t < WIN);
  for (i = 0; i < WIN; ++i) inmem[i] = (unsigned)i == in_t? (sample_t)1 : (sample_t)0;
  s.fifo.data = (char *)inmem; s.fifo.allocation = sizeof(inmem); s.fifo.item_size = sizeof(sample_t); s.fifo.begin = 0; s.fifo.end = sizeof(inmem);
  out.data = (char *)outmem; out.allocation = sizeof(outmem); out.item_size = sizeof(sample_t);
  { /* the kernel is taken from the REAL selection table half_firs[] (what find_half_fir hands to _soxr_init), row with VF_HN coefficients */
    unsigned r; half_fir_info_t const * row = 0;
    for (r = 0; r < array_length(half_firs); ++r) if (half_firs[r].num_coefs == VF_HN) row = &half_firs[r];
    VF_ASSERT(row != 0, "half_firs[] has a row with this number of coefficients");
    VF_ASSERT(row->coefs == (real const *)KTAB, "the row points at the coefficient table of its length (C01/C02)");
    s.pre = pre; s.pre_post = 4 * VF_HN; s.input_size = 2; s.n = row->num_coefs; s.coefs = row->coefs;      /* cr.c:367-372 */
    row->fn(&s, &out);
    (void)KFN;
  }
  VF_ASSERT(fifo_occupancy(&out) >= 1, "one output for two inputs");
  y = outmem[0];
  d = (int)in_t - pre; if (d < 0) d = -d;
  if (d == 0) expect = (sample_t).5;
  else if ((d & 1) && (d - 1) / 2 < VF_HN) expect = KTAB[(d - 1) / 2];
  else expect = 0;
  VF_ASSERT(y == expect, "half-band kernel: every tap of its table is applied to the sample the filter definition pairs it with (C13/C01/C02)");
  VF_WITNESS();
}
