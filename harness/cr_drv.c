/* L2: the constant-rate driver of cr.c (_soxr_input, _soxr_process, stage_process, _soxr_output, _soxr_flush,
 * _soxr_delay) and fifo.h's offset arithmetic, over ABSTRACT stages - one API-internal call from an arbitrary
 * state that satisfies the accounting invariant (inductive step; history length is not a bound).
 *
 * Real code: cr.c (textually included, so the static stage_process is reached) + fifo.h.
 * Abstracted: the stage kernels (contract: consume c <= available, append o samples; progress o,c >= 1 once the
 * stage holds input_size samples - proved for the real kernels by the L3 harnesses) and the FIFO payload
 * (memcpy/memmove/memset are no-ops, allocation is unbounded: only the byte offsets begin/end matter here;
 * payload preservation is the FIFO lemma fifo_lemma.c).
 *
 * Ghosts: N = frames accepted so far, D = frames delivered so far, OWED0 = the total fixed at end-of-input.
 * INV:  !flushing: samples_in == N, samples_out == D
 *        flushing: samples_in == 0, samples_out == D - OWED0, D <= OWED0, OWED0 == round-half-up(N / io_ratio)
 * Obligations (VF_OP): 0 input, 1 process+output, 2 flush, 3 delay. */
#include "vf.h"
#include <string.h>
#include <stdlib.h>
#include <math.h>
static void * vf_nop_mem(void * d) { return d; }
#define memcpy(d, s, n) vf_nop_mem(d)
#define memmove(d, s, n) vf_nop_mem(d)
static size_t vf_memset_total;
#define memset(d, c, n) (vf_memset_total += (size_t)(n), vf_nop_mem(d))      /* payload abstracted, LENGTH recorded */
#include "cr.c"

#ifndef VF_NS
#define VF_NS 1          /* number of (abstract) stages */
#endif
#ifndef VF_OP
#define VF_OP 1
#endif
#ifndef VF_MAXO
#define VF_MAXO 3        /* per stage call: at most this many samples appended */
#endif
#ifndef VF_ITEM
#define VF_ITEM 4        /* sizeof(real): 4 or 8 (compile-time: fifo_occupancy divides by it) */
#endif
#ifndef VF_MAXIS
#define VF_MAXIS 3       /* input_size of the abstract stages */
#endif

static char vf_mem[VF_NS + 1][8];
static unsigned vf_stage_calls; static size_t vf_consumed0;
static int in_c[8], in_o[8];

static void abs_stage_fn(stage_t * p, fifo_t * out)
{
  int occ = fifo_occupancy(&p->fifo);
  int num_in = min(stage_occupancy(p), p->input_size);
  unsigned k = vf_stage_calls++;
  int c, o;
  VF_ASSERT(k < 8, "harness bound: stage calls");
  c = in_c[k & 7]; o = in_o[k & 7];
  VF_ASSUME(c >= 0 && c <= num_in && o >= 0 && o <= VF_MAXO);
  if (occ >= p->input_size) VF_ASSUME(c >= 1 && o >= 1);      /* progress contract (L3) */
  fifo_reserve(out, o);
  fifo_read(&p->fifo, c, NULL);
  if (p->num == 0) vf_consumed0 += (size_t)c;
}

static rate_t P;
static stage_t S[VF_NS + 1];

static void fifo_any(fifo_t * f, unsigned k, size_t begin, size_t occ)
{ /* any FIFO state: item_size 4 or 8, begin <= end, unbounded allocation (growth is fifo_lemma.c's subject) */
  f->data = vf_mem[k];
  f->allocation = (size_t)1 << 40;
  f->begin = begin * f->item_size;
  f->end = f->begin + occ * f->item_size;
}

VF_MAIN
{
  IN_I64(in_N); IN_I64(in_D); IN_UINT(in_flushing); IN_DBL(in_ratio); IN_UINT(in_dbl);
  IN_ARR(unsigned, in_begin, 3); IN_ARR(unsigned, in_occ, 3); IN_ARR(unsigned, in_isz, 3); IN_ARR(unsigned, in_pp, 3);
  IN_UINT(in_n); IN_I64(in_owed0);
  int64_t N = in_N, D = in_D, owed0 = in_owed0;
  double q;
  unsigned i;
  IN_GARR(in_c); IN_GARR(in_o);

  /* ---- arbitrary state satisfying INV ---- */
  VF_ASSUME(in_flushing < 2 && in_dbl < 2);
#ifdef VF_RATIO          /* stated bound: io_ratio is this constant (division by a constant folds in the SAT encoding) */
  VF_ASSUME(in_ratio == VF_RATIO);
#endif
  VF_ASSUME(in_ratio >= 1. / 4096 && in_ratio <= 4096.);
#ifdef VF_RATIO_BITS    /* stated bound: io_ratio has at most VF_RATIO_BITS significant bits (keeps the divider small) */
  { double m = in_ratio * 4096.; VF_ASSUME(m == (double)(int)m && (int)m % (1 << (24 - VF_RATIO_BITS)) == 0); }
#endif
  VF_ASSUME(N >= 0 && N < ((int64_t)1 << VF_NBITS) && D >= 0);
  P.io_ratio = in_ratio; P.num_stages = VF_NS; P.stages = S; P.flushing = (int)in_flushing;
  q = (VF_OP >= 2)? (double)N / in_ratio : 0;
  if (in_flushing) {
    if (VF_OP >= 2) VF_ASSUME((double)owed0 - .5 <= q && q < (double)owed0 + .5);   /* OWED0 == round-half-up(N/r) */
    VF_ASSUME(owed0 >= 0);
    VF_ASSUME(D <= owed0 && owed0 - D < ((int64_t)1 << 31));   /* what is still owed fits the int FIFO sizes */
    P.samples_in = 0; P.samples_out = D - owed0;
  } else {
    VF_ASSUME(D < ((int64_t)1 << 40));
    P.samples_in = N; P.samples_out = D;
  }
  for (i = 0; i <= VF_NS; ++i) {
    S[i].fifo.item_size = VF_ITEM;
    VF_ASSUME(in_begin[i] < (1u << 20) && in_occ[i] <= 8);
    fifo_any(&S[i].fifo, i, in_begin[i], in_occ[i]);
    S[i].fn = abs_stage_fn; S[i].num = (int)i;
    VF_ASSUME(in_isz[i] >= 1 && in_isz[i] <= VF_MAXIS && in_pp[i] < in_isz[i]);   /* ENV: input_size > pre_post */
    S[i].input_size = (int)in_isz[i]; S[i].pre_post = (int)in_pp[i];
  }
  S[0].is_input = true;
  VF_ASSUME(in_n <= 4);

#if VF_OP == 0      /* _soxr_input(n) */
  {
    size_t occ0 = (size_t)fifo_occupancy(&S[0].fifo);
    real * r = _soxr_input(&P, 0, in_n);
    if (in_flushing) {
      VF_ASSERT(r == 0 && P.samples_in == 0 && P.samples_out == D - owed0 && (size_t)fifo_occupancy(&S[0].fifo) == occ0,
          "input after end-of-input is refused and changes nothing (C03)");
    } else {
      VF_ASSERT(r != 0, "input is accepted while streaming");
      VF_ASSERT(P.samples_in == N + (int64_t)in_n && P.samples_out == D, "samples_in counts every accepted frame once (C03/C15)");
      VF_ASSERT((size_t)fifo_occupancy(&S[0].fifo) == occ0 + in_n, "exactly n frames enter the first FIFO (C05)");
    }
    VF_ASSERT(P.flushing == (int)in_flushing, "input does not change the end-of-input latch");
  }
#elif VF_OP == 1    /* _soxr_process(olen); _soxr_output(&n) */
  {
    size_t n = in_n, lastocc, occ00 = (size_t)fifo_occupancy(&S[0].fifo); int64_t so0 = P.samples_out; int target;
    _soxr_process(&P, n);
    if (VF_NS > 0) VF_ASSERT(vf_memset_total == ((size_t)fifo_occupancy(&S[0].fifo) + vf_consumed0 - occ00) * VF_ITEM, "end-of-input padding zeroes exactly the bytes it appends to the first FIFO: whole samples of the stage's sample size (C05/C03)");
    lastocc = (size_t)fifo_occupancy(&S[VF_NS].fifo);
    VF_ASSERT(P.samples_in == (in_flushing? 0 : N) && P.samples_out == so0, "process does not touch the counters");
    target = in_flushing? (int)min((int64_t)n, owed0 - D) : (int)n;
    if (in_flushing && VF_NS > 0)
      VF_ASSERT((int)lastocc >= target, "after end-of-input, process makes everything that is owed (up to olen) available (C03/C08 drain)");
    _soxr_output(&P, 0, &n);
    VF_ASSERT(n <= in_n, "output never exceeds the request (C07)");
    VF_ASSERT(n <= lastocc, "output never exceeds what is buffered (C07)");
    VF_ASSERT((size_t)fifo_occupancy(&S[VF_NS].fifo) == lastocc - n, "delivered frames leave the last FIFO exactly once (C05)");
    if (in_flushing) {
      VF_ASSERT(D + (int64_t)n <= owed0, "after end-of-input never more than the owed total is delivered (C03)");
      VF_ASSERT(P.samples_out == D + (int64_t)n - owed0 && P.samples_in == 0, "INV kept: samples_out == delivered - owed (C03/C15)");
      VF_ASSERT((int64_t)n == min(min((int64_t)in_n, owed0 - D), (int64_t)lastocc), "delivers min(request, owed, buffered) (C03)");
      if (D == owed0) VF_ASSERT(n == 0, "nothing is delivered once the total has been reached (C03)");
      if (VF_NS > 0) VF_ASSERT((int64_t)n == min((int64_t)in_n, owed0 - D), "drain: a request is filled until the owed total is reached (C03/C08)");
    } else {
      VF_ASSERT(P.samples_out == D + (int64_t)n && P.samples_in == N, "INV kept: samples_out == delivered (C15)");
      VF_ASSERT(n == min((size_t)in_n, lastocc), "delivers min(request, buffered) while streaming");
    }
  }
#elif VF_OP == 2    /* _soxr_flush */
  {
    _soxr_flush(&P);
    VF_ASSERT(P.flushing == 1 && P.samples_in == 0, "flush latches end-of-input");
    if (in_flushing)
      VF_ASSERT(P.samples_out == D - owed0, "a second flush changes nothing (C03)");
    else {
      int64_t owed = D - P.samples_out;      /* total fixed by this flush */
      VF_ASSERT(owed >= 0, "owed total is not negative");
      VF_ASSERT((double)owed - .5 <= q && q < (double)owed + .5, "end-of-input fixes the total at round-half-up(N / io_ratio) (C03)");
    }
  }
#elif VF_OP == 3    /* _soxr_delay */
  {
    double d = _soxr_delay(&P);
    if (in_flushing) {
      VF_ASSERT(d == (double)(owed0 - D), "after end-of-input the delay is exactly the number of frames still to come (C15)");
      VF_ASSERT(d >= 0, "delay is never negative after end-of-input (C15)");
      if (D == owed0) VF_ASSERT(d == 0, "delay is 0 once drained (C15)");
    } else {
      /* reachable streaming states deliver at most ceil(N/r) (C03-H2, proved per kernel): */
      VF_ASSUME((double)D <= q + 1);
      VF_ASSERT(d >= -1, "delay is never below -1 while streaming (C15)");
      /* delivered + round(delay) == the total a flush would fix now (frames_not_yet_supplied == 0) */
      { IN_I64(in_rd); int64_t rd = in_rd, tot;      /* rd == round-half-up(d), introduced relationally (no floor()) */
        VF_ASSUME(rd >= -2 && rd < ((int64_t)1 << 45) && (double)rd - .5 <= d && d < (double)rd + .5);
        tot = D + rd;
        VF_ASSERT((double)tot - .5 <= q && q < (double)tot + .5, "delivered + round(delay) equals the final total (C15)"); }
      if (N == 0 && D == 0) VF_ASSERT(d == 0, "delay is 0 before any input (C15)");
    }
    VF_ASSERT(P.samples_in == (in_flushing? 0 : N) && P.flushing == (int)in_flushing, "delay is a pure query");
  }
#endif
  VF_WITNESS();
}
