/* L4: the REAL _soxr_init of cr.c for the 'quick' recipe (precision 0: no planning loop, one cubic stage or none) with a
 * symbolic io_ratio and gain: the stage it sets up is inside the envelope ENV(cubic) that cubic_stage_fn and
 * stage_process rely on - in particular input_size > pre_post (progress, C08) and pre_post >= step.integer (no sample
 * position is lost, C04) - the FIFOs are created and pre-loaded, the gain is handed to the stage exactly once (C12).
 * Higher precisions go through the planning loop, which is not symbolically executable (DESIGN.md I.2). */
#include "vf.h"
#include <string.h>
#include <stdlib.h>
#include <math.h>
#include "filter.h"
double * _soxr_design_lpf(double Fp, double Fs, double Fn, double att, int * num_taps, int k, double beta)
{ (void)Fp; (void)Fs; (void)Fn; (void)att; (void)num_taps; (void)k; (void)beta; VF_ASSERT(0, "no filter is designed for the quick recipe"); return 0; }
void _soxr_fir_to_phase(double * * h, int * len, int * post_len, double phase) { (void)h; (void)len; (void)post_len; (void)phase; }
double _soxr_inv_f_resp(double drop, double a) { (void)drop; (void)a; return .5; }
double _soxr_f_resp(double t, double a) { (void)t; (void)a; return -1.; }
#if !defined VF_NATIVE
int _soxr_trace_level; void _soxr_trace(char const * fmt, ...) { (void)fmt; }
#endif
#if defined VF_MAY_FAIL && defined KF_C20_FIFO_CREATE && !defined VF_NATIVE
/* known finding excluded: the FIFO allocations of _soxr_init (result of fifo_create ignored) do not fail */
static void * vf_fifo_malloc(size_t n) { void * p = malloc(n); __CPROVER_assume(p != 0); return p; }
#define FIFO_REALLOC(a, b, c) realloc(a, b)
#define FIFO_FREE free
#define FIFO_MALLOC vf_fifo_malloc
#endif
#include "cr.c"
#if !defined VF_NATIVE
/* allocation model: the stage array (at most 2 entries for this recipe) as a typed, exactly sized object */
void * calloc(size_t n, size_t sz)
{
  static stage_t const zero;
  stage_t * s; size_t i;
  VF_ASSERT(sz == sizeof(stage_t) && n >= 1 && n <= 2, "harness: only the stage array is calloc'ed on this path");
  s = malloc(sizeof(stage_t) * 2);
#ifdef VF_MAY_FAIL
  if (!s) return 0;
#else
  VF_ASSUME(s != 0);
#endif
  for (i = 0; i < 2; ++i) s[i] = zero;
  return s;
}
#endif
static void any_stage_fn(stage_t * p, fifo_t * o) { (void)p; (void)o; }
static void cb_noop(void * p) { (void)p; }
static fn_t vf_cb[15];

VF_MAIN
{
  IN_DBL(in_ratio); IN_DBL(in_mult); IN_ULONG(in_rflags);
  static rate_t P; static rate_shared_t sh; static cr_core_t core;
  soxr_quality_spec_t q; soxr_runtime_spec_t r; char const * e; int i;
  memset(&q, 0, sizeof(q)); memset(&r, 0, sizeof(r));
  q.precision = 0; q.phase_response = 50; q.passband_end = .913; q.stopband_begin = 1;
  r.log2_min_dft_size = 10; r.log2_large_dft_size = 17; r.coef_size_kbytes = 400; r.flags = in_rflags & 0xf;
  core.cubic_stage_fn = any_stage_fn;
  vf_cb[2] = (fn_t)cb_noop; vf_cb[13] = (fn_t)cb_noop; core.rdft_cb = vf_cb; core.mem.free = cb_noop;
  VF_ASSUME(in_ratio >= 1e-6 && in_ratio <= 1e9 && in_mult > 0 && in_mult < 1e6);   /* below 2^-33 the 32.32 step of the cubic stage is 0: outside (observation in DESIGN.md) */
#ifdef KF_C08_QQ_LARGE_RATIO
  VF_ASSUME(in_ratio < 8191);
#endif
  e = _soxr_init(&P, &sh, in_ratio, &q, &r, in_mult, &core, 0);
#ifdef VF_MAY_FAIL
  /* any subset of the allocations fails: the call reports an error or builds a complete object; nothing is dereferenced that was not allocated */
  if (e) { _soxr_close(&P); VF_WITNESS(); return; }
#endif
  VF_ASSERT(e == 0, "a valid quick-recipe configuration is accepted (C09)");
  VF_ASSERT(P.num_stages == ((in_ratio != 1 || in_mult != 1)? 1 : 0), "one cubic stage unless the conversion is an exact pass-through (C11/C12)");
  VF_ASSERT(P.io_ratio == in_ratio && P.samples_in == 0 && P.samples_out == 0 && !P.flushing, "fresh accounting state (C03/C15)");
  for (i = 0; i < 2; ++i) if (i < P.num_stages) {
    stage_t * s = &P.stages[i];
    VF_ASSERT(s->fn == any_stage_fn && s->is_input, "the single stage is the cubic stage and the input stage");
    VF_ASSERT(s->mult == in_mult, "the gain is handed to the cubic stage (C12)");
    VF_ASSERT(s->step.whole > 0, "positive step");
    VF_ASSERT(s->pre >= 1 && s->pre_post >= s->pre + 2 && s->pre_post >= s->step.integer, "ENV(cubic): context covers s[-1..2] and one whole step (C07/C04)");
    VF_ASSERT(s->input_size > s->pre_post, "ENV(cubic): a stage that holds input_size samples can make progress (C08)");
    VF_ASSERT(s->preload == s->pre && fifo_occupancy(&s->fifo) == s->preload, "the FIFO is pre-loaded with the stage latency (C04/C03)");
    VF_ASSERT(s->at.whole == 0, "the clock starts at the first input sample (C04)");
  }
  VF_ASSERT(fifo_occupancy(&P.stages[P.num_stages].fifo) == 0 && P.stages[P.num_stages].fifo.item_size == sizeof(float), "output FIFO created empty");
  _soxr_close(&P);
  VF_WITNESS();
}
