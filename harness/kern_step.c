/* L3: ONE call of a real stage kernel (cr-core.c instantiated by the engine file VF_ENGINE_C, default cr32.c) from an
 * arbitrary stage state inside the stage envelope ENV(kind) - the contract the planner has to establish.
 * Static kernels are reached by textual inclusion of the engine file.
 *
 * VF_KERN: 0 half-band hN (VF_HN = 7..13)   1 vpoly0 (rational, exact L/M stepping)   2 vpolyK / u100_K (VF_ORDER 1..3)
 *          3 cubic_stage_fn                  4 U100_0 / u100_0 (fixed length, rational)
 * VF_SPLIT 0: single call;  1: self-composition - the same stage fed a samples then b more (two calls) against a+b at
 *          once (one call): same final clock, same total output count, same total consumed (split lemma, C05)
 *
 * Obligations: every access inside the FIFO allocations / coefficient table (cbmc pointer checks, C07); library asserts
 * (compile mode without NDEBUG); conservation of the virtual read position consumed*unit + at (C04: no drift, exact
 * carry); produced == number of clock ticks that fit the available input (maximal, never more: C03-H2); progress (C08);
 * shift covariance for rational stepping (C12): M more inputs <-> exactly L more outputs with the same phase.
 * Sample DATA is left nondeterministic: every count/position assertion holds for all data (data independence). */
#include "vf.h"
#include <string.h>
#include <stdlib.h>
#include <math.h>
#ifndef VF_ENGINE_C
#define VF_ENGINE_C "cr32.c"
#endif
#include VF_ENGINE_C
#if defined VF_SIMD_MODELS && !defined VF_NATIVE
/* the two SSE shuffles the SIMD kernels use have no body in cbmc: exact lane permutations (Intel SDM MOVHLPS / SHUFPS) */
typedef float vf_v4sf __attribute__((vector_size(16)));
vf_v4sf __builtin_ia32_movhlps(vf_v4sf a, vf_v4sf b) { vf_v4sf r; r[0] = b[2]; r[1] = b[3]; r[2] = a[2]; r[3] = a[3]; return r; }
vf_v4sf __builtin_ia32_shufps(vf_v4sf a, vf_v4sf b, int imm) { vf_v4sf r; r[0] = a[imm & 3]; r[1] = a[(imm >> 2) & 3]; r[2] = b[(imm >> 4) & 3]; r[3] = b[(imm >> 6) & 3]; return r; }
#endif

#ifndef VF_KERN
#define VF_KERN 0
#endif
#ifndef VF_HN
#define VF_HN 8
#endif
#ifndef VF_ORDER
#define VF_ORDER 1
#endif
#ifndef VF_SPLIT
#define VF_SPLIT 0
#endif
#ifndef VF_HIPREC
#define VF_HIPREC 0
#endif
#ifndef VF_MAXIN
#define VF_MAXIN 4         /* samples a call may consume at most (unwinding bound) */
#endif
#ifndef VF_NTAPS
#define VF_NTAPS 4         /* FIR length of the variable-length poly-phase kernels */
#endif
#ifndef VF_FIXED            /* 1: the fixed-length portable kernels u100_* / U100_0 instead of vpoly* */
#define VF_FIXED 0
#endif

#define CAT_(a, b) a##b
#define CAT(a, b) CAT_(a, b)
#if VF_KERN == 0
#define KFN CAT(h, VF_HN)
#define KN VF_HN
#elif VF_KERN == 1
#define KFN vpoly0
#define KN VF_NTAPS
#elif VF_KERN == 2
#if VF_FIXED
#define KFN CAT(u100_, VF_ORDER)
#define KN 11
#else
#define KFN CAT(vpoly, VF_ORDER)
#define KN VF_NTAPS
#endif
#elif VF_KERN == 3
#define KFN cubic_stage_fn
#define KN 0
#else
#if VF_FIXED == 2
#define KFN U100_0
#define KN 42
#else
#define KFN u100_0
#define KN 11
#endif
#endif

#define IN_CAP 96          /* samples in the (constant-size) input FIFO allocation */
#define OUT_CAP 64
#define COEF_CAP 6144
static sample_t vf_coefs[COEF_CAP];
static rate_shared_t vf_shared;

typedef struct { stage_t s; fifo_t out; size_t occ0, out0; } run_t;

static void setup(run_t * r, sample_t * inmem, sample_t * outmem, unsigned begin, unsigned occ, unsigned obegin, unsigned oocc)
{
  memset(r, 0, sizeof(*r));
  r->s.fifo.data = (char *)inmem; r->s.fifo.allocation = IN_CAP * sizeof(sample_t); r->s.fifo.item_size = sizeof(sample_t);
  r->s.fifo.begin = begin * sizeof(sample_t); r->s.fifo.end = (begin + occ) * sizeof(sample_t);
  r->out.data = (char *)outmem; r->out.allocation = OUT_CAP * sizeof(sample_t); r->out.item_size = sizeof(sample_t);
  r->out.begin = obegin * sizeof(sample_t); r->out.end = (obegin + oocc) * sizeof(sample_t);
  r->s.shared = &vf_shared; r->s.coefs = vf_coefs; vf_shared.poly_fir_coefs = vf_coefs;
  r->occ0 = occ; r->out0 = oocc;
}
static int consumed(run_t * r) { return (int)r->occ0 - fifo_occupancy(&r->s.fifo); }
static int produced(run_t * r) { return fifo_occupancy(&r->out) - (int)r->out0; }

VF_MAIN
{
  IN_UINT(in_begin); IN_UINT(in_occ); IN_UINT(in_obegin); IN_UINT(in_oocc); IN_UINT(in_isz); IN_UINT(in_pre); IN_UINT(in_post);
  IN_I64(in_at); IN_I64(in_step); IN_U64(in_atls); IN_U64(in_stepls); IN_UINT(in_hiprec); IN_UINT(in_L); IN_UINT(in_phase_bits);
  IN_UINT(in_split_a); IN_DBL(in_mult);
  sample_t * inmem = malloc(IN_CAP * sizeof(sample_t)), * outmem = malloc(OUT_CAP * sizeof(sample_t));
  sample_t * inmem2 = malloc(IN_CAP * sizeof(sample_t)), * outmem2 = malloc(OUT_CAP * sizeof(sample_t));
  run_t A, B;
  int num_in, pre, pre_post, c, o;
  VF_ASSUME(inmem && outmem && inmem2 && outmem2);
  VF_ASSUME(in_begin <= 8 && in_obegin <= 4 && in_oocc <= 4 && in_occ <= IN_CAP - 8);
  /* the valid region [begin, end) touches one edge of the allocation, so that a read before the first or after the last
   * buffered sample is a pointer-check failure, not a silent read of stale bytes */
  VF_ASSUME(in_begin == 0 || in_begin + in_occ == IN_CAP);
  setup(&A, inmem, outmem, in_begin, in_occ, in_obegin, in_oocc);

  /* ---------------- the stage envelope ENV(kind): what the kernel needs from the planner ---------------- */
#if VF_KERN == 0           /* half-band: cr.c:367-372: pre_post = 4n, pre = 2n */
  VF_ASSUME(in_pre >= 2 * KN - 1 && in_pre <= 2 * KN + 1 && in_post >= 2 * KN - 1 && in_post <= 2 * KN + 1);      /* weakest: the taps on both sides are covered (today: 2n / 2n) */
#ifdef VF_SIMD_MODELS
  VF_ASSUME(in_pre >= 2 * KN);       /* the SSE kernel loads 4 samples at input - 2j - 8: one more sample of history than the scalar kernel */
#endif
#elif VF_KERN == 3         /* cubic: cr.c:390-396: pre = 1, pre_post = max(3, step.integer) */
  VF_ASSUME(in_pre >= 1 && in_pre <= 2 && in_post >= 2 && in_post <= 8);
#else                      /* poly-phase: cr.c:446-449: pre = 0, pre_post = n - 1 */
  VF_ASSUME(in_pre == 0 && in_post == KN - 1);
#endif
  pre = (int)in_pre; pre_post = (int)(in_pre + in_post);
  VF_ASSUME(in_isz >= 1 && in_isz <= VF_MAXIN && (int)in_isz + pre_post <= IN_CAP - 8);
  A.s.pre = pre; A.s.pre_post = pre_post; A.s.input_size = (int)in_isz; A.s.n = KN;
  A.s.mult = in_mult;
#if VF_KERN == 1 || VF_KERN == 4       /* rational: at.integer in [0, L), step.integer = M >= 1 (cr.c:428-460) */
  VF_ASSUME(in_L >= 1 && in_L <= 8 && in_at >= 0 && in_at < (int64_t)in_L && in_step >= 1 && in_step <= 24);
  VF_ASSUME(KN * in_L <= COEF_CAP && in_step <= (int64_t)in_L * (KN - 1));   /* ENV: M/L <= retained context */
  VF_ASSUME(2 * in_step >= (int64_t)in_L);                                   /* stated bound: at most 2 outputs per input (unwinding) */
  A.s.L = (int)in_L; A.s.at.integer = (int)in_at; A.s.step.integer = (int)in_step;
#elif VF_KERN == 2 || VF_KERN == 3     /* 32.32 (+64) clock: 0 <= at < 1 sample, step in (0, 8) */
  VF_ASSUME(in_at >= 0 && in_at < ((int64_t)1 << 32) && in_step >= ((int64_t)1 << 31) && in_step < ((int64_t)8 << 32));   /* stated bound: step in [0.5, 8) input samples per output */
  A.s.at.whole = in_at; A.s.step.whole = in_step;
  A.s.at.fix.ls.all = in_atls; A.s.step.fix.ls.all = in_stepls;
  A.s.use_hi_prec_clock = (VF_KERN == 2) && VF_HIPREC;
  A.s.L = 1;
#if VF_KERN == 2
#if VF_FIXED
  A.s.phase_bits = VF_ORDER == 1? 8 : 6;
  VF_ASSUME(in_phase_bits == (unsigned)A.s.phase_bits);
#else
  VF_ASSUME(in_phase_bits >= 1 && in_phase_bits <= 6); A.s.phase_bits = (int)in_phase_bits;
#endif
  VF_ASSUME((KN * (VF_ORDER + 1)) << in_phase_bits <= COEF_CAP);
#endif
  /* cr.c:456,474: out_in_ratio = 2^32 * L / step.whole (double division by the planner; any value >= the true ratio is
   * what the kernels need for their output reservation): */
#ifdef VF_OIR_TIGHT
  { IN_DBL(in_oir); VF_ASSUME(in_oir * (double)in_step >= 4294967296. && in_oir <= 2.000001); A.s.out_in_ratio = in_oir; }
#else   /* the reservation ratio at its upper end for step >= 0.5 (a constant keeps the float multiply out of the formula; the
         * tight value is the VF_OIR_TIGHT obligation's subject) */
  A.s.out_in_ratio = 2.000001;
#endif
#if VF_KERN == 3
  VF_ASSUME((int)(in_pre + in_post) >= (int)(in_step >> 32));      /* weakest: the retained context covers one whole step (today: pre_post = max(3, step.integer)) */
#else
  VF_ASSUME((int)(in_step >> 32) <= pre_post);                       /* ENV: the retained context covers one step beyond the input */
#endif
#endif
  num_in = min(stage_occupancy(&A.s), A.s.input_size);
  VF_ASSUME(fifo_occupancy(&A.s.fifo) >= pre);       /* the pre-load (>= pre) never leaves the FIFO: stage_read_p stays inside */
  B = A;

#if !VF_SPLIT
  KFN(&A.s, &A.out);
  c = consumed(&A); o = produced(&A);
  VF_ASSERT(o >= 0 && c >= 0, "a stage call neither un-reads input nor removes earlier output");
  VF_ASSERT(c <= (int)in_occ, "a stage never consumes more than the FIFO holds (C07)");
#if VF_KERN == 0
  VF_ASSERT(o == (num_in + 1) / 2 && c == 2 * o, "half-band: one output per two inputs, output count is ceil(num_in / 2) (C03/C04)");
  if (num_in >= 1) VF_ASSERT(o >= 1 && c >= 1, "progress: input available => output appended (C08)");
#elif VF_KERN == 1 || VF_KERN == 4
  { /* virtual position in units of 1/L input samples: consumed*L + at' == at + produced*M */
    int64_t v0 = in_at, v1 = (int64_t)c * (int64_t)in_L + A.s.at.integer;
    VF_ASSERT(v1 == v0 + (int64_t)o * in_step, "rational stepping is exact: position advances by M/L per output, no drift (C04)");
    VF_ASSERT(A.s.at.integer >= 0 && A.s.at.integer < (int)in_L, "phase stays in [0, L) (C04)");
    VF_ASSERT(v0 + (int64_t)o * in_step >= (int64_t)num_in * in_L, "maximal: the next output needs a sample that is not there yet (C05)");
    if (o > 0) VF_ASSERT(v0 + (int64_t)(o - 1) * in_step < (int64_t)num_in * in_L, "never more: the last output's first tap was available (C03)");
    if (num_in >= 1) VF_ASSERT(o >= 1, "progress: input available => output appended (C08)");
    VF_ASSERT(A.s.step.integer == (int)in_step && A.s.L == (int)in_L, "the stage parameters are not modified");
  }
#elif VF_KERN == 2 || VF_KERN == 3
  if (!A.s.use_hi_prec_clock) {   /* 32.32: consumed*2^32 + at' == at + produced*step */
    int64_t v1 = ((int64_t)c << 32) + A.s.at.whole;
    VF_ASSERT(v1 == in_at + (int64_t)o * in_step, "32.32 clock: position advances by exactly step per output (C04)");
    VF_ASSERT(A.s.at.whole >= 0 && A.s.at.whole < ((int64_t)1 << 32), "read position is normalised to [0,1) sample after the call (C04)");
    VF_ASSERT(in_at + (int64_t)o * in_step >= ((int64_t)num_in << 32), "maximal: the next output needs a sample that is not there yet (C05)");
    if (o > 0) VF_ASSERT(in_at + (int64_t)(o - 1) * in_step < ((int64_t)num_in << 32), "never more (C03)");
  } else {                        /* 32.32+64: the 128-bit sum is exact, carry included */
    unsigned __int128 v0 = ((unsigned __int128)(uint64_t)in_at << 64) | in_atls;
    unsigned __int128 st = ((unsigned __int128)(uint64_t)in_step << 64) | in_stepls;
    unsigned __int128 v1 = ((unsigned __int128)((uint64_t)A.s.at.whole + ((uint64_t)c << 32)) << 64) | A.s.at.fix.ls.all;
    { int k; for (k = 0; k < 12; ++k) if (k < o) v0 += st; }       /* v0 + o*st by repeated addition (no 128-bit multiplier in the formula) */
    VF_ASSERT(o <= 12, "harness bound: outputs per call");
    VF_ASSERT(v1 == v0, "hi-prec clock: exact 96-bit accumulation incl. the carry between the halves (C04)");
    VF_ASSERT(A.s.at.whole >= 0 && A.s.at.whole < ((int64_t)1 << 32), "read position is normalised (C04)");
  }
  if (num_in >= 1) VF_ASSERT(o >= 1, "progress: input available => output appended (C08)");
  VF_ASSERT(c >= num_in, "every offered sample is consumed or the clock already points past it (C08: no input is left behind)");
  VF_ASSERT(A.s.step.whole == in_step && A.s.step.fix.ls.all == in_stepls, "the step is not modified by a call");
#endif
#else   /* ---------------- split lemma: a then b  ==  a + b ---------------- */
  {
    unsigned a = in_split_a, tot = in_occ; int c1, o1, c2, o2;
    VF_ASSUME(a <= tot);
    /* run B sees only the first a samples, then the rest */
    B.s.fifo.data = (char *)inmem2; B.out.data = (char *)outmem2;
    B.s.fifo.end = B.s.fifo.begin + a * sizeof(sample_t); B.occ0 = a;
    VF_ASSUME(a >= (unsigned)pre);
    KFN(&B.s, &B.out);
    c1 = consumed(&B); o1 = produced(&B);
    B.s.fifo.end += (tot - a) * sizeof(sample_t); B.occ0 = (size_t)fifo_occupancy(&B.s.fifo); B.out0 = (size_t)fifo_occupancy(&B.out);
    KFN(&B.s, &B.out);
    c2 = consumed(&B); o2 = produced(&B);
    /* run A: everything at once - but a stage call takes at most input_size samples, so give A the same two-call budget */
    KFN(&A.s, &A.out);
    c = consumed(&A); o = produced(&A);
    A.occ0 = (size_t)fifo_occupancy(&A.s.fifo); A.out0 = (size_t)fifo_occupancy(&A.out);
    KFN(&A.s, &A.out);
    c += consumed(&A); o += produced(&A);
    /* both runs may still hold unprocessed input (input_size limit); compare when both have drained what they can */
    if (stage_occupancy(&A.s) == 0 && stage_occupancy(&B.s) == 0) {
      VF_ASSERT(o == o1 + o2, "split lemma: same number of outputs however the input arrived (C05)");
      VF_ASSERT(c == c1 + c2, "split lemma: same number of inputs consumed (C05)");
      VF_ASSERT(A.s.at.whole == B.s.at.whole && A.s.at.fix.ls.all == B.s.at.fix.ls.all, "split lemma: same final clock (C05/C04)");
    }
  }
#endif
  VF_WITNESS();
}
