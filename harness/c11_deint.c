/* C11 input side: _soxr_deinterleave(_f) of data-io.c, all four input types,
 * mono and strided kernels, every bit pattern of the samples (VF_N frames).
 * Oracle: the value is carried exactly when the engine's sample type can
 * represent it (int16/int32/float32 -> double, int16/float32 -> float,
 * float64 -> double); otherwise it is the nearest representable value
 * (error <= half an ulp: 2^-24 relative for float). Also: the source
 * pointer advances by exactly n frames and channel c, frame j lands in
 * dest[c][j] (index exactness, C06). */
#include "vf.h"
#include <math.h>
#include "soxr.h"
#include "data-io.h"
#ifndef VF_DBL
#define VF_DBL 0
#endif
#ifndef VF_IT
#define VF_IT 0
#endif
#ifndef VF_CH
#define VF_CH 2
#endif
#ifndef VF_N
#define VF_N 2
#endif
#if VF_DBL
typedef double fx_t;
#else
typedef float fx_t;
#endif
#if VF_IT == 0
typedef float in_t;
#elif VF_IT == 1
typedef double in_t;
#elif VF_IT == 2
typedef int32_t in_t;
#else
typedef int16_t in_t;
#endif

VF_MAIN
{
  IN_ARR(in_t, in_src, VF_N * VF_CH);
  fx_t d0[VF_N], d1[VF_N], d2[VF_N];
  fx_t * dest[3];
  void const * s = in_src;
  int j, c;
  dest[0] = d0; dest[1] = d1; dest[2] = d2;
#if VF_DBL
  _soxr_deinterleave(dest, (soxr_datatype_t)VF_IT, &s, VF_N, VF_CH);
#else
  _soxr_deinterleave_f(dest, (soxr_datatype_t)VF_IT, &s, VF_N, VF_CH);
#endif
  VF_ASSERT(s == (void const *)(in_src + VF_N * VF_CH), "source pointer advanced by exactly n frames");
  for (j = 0; j < VF_N; ++j) for (c = 0; c < VF_CH; ++c) {
    in_t x = in_src[j * VF_CH + c];
    fx_t y = dest[c][j];
#if VF_IT <= 1
    if (x != x) { VF_ASSERT(y != y, "NaN stays NaN"); continue; }
#endif
#if VF_DBL || VF_IT == 0 || VF_IT == 3
    VF_ASSERT((double)y == (double)x, "representable value is carried exactly, to the right channel and frame");
#elif VF_IT == 2
    VF_ASSERT(fabs((double)y - (double)x) <= fabs((double)x) * (1. / 16777216), "int32 -> float: nearest float");
#else
    if (fabs(x) < 3e38 && fabs(x) > 1e-37)
      VF_ASSERT(fabs((double)y - x) <= fabs(x) * (1. / 16777216), "float64 -> float32: nearest float");
#endif
  }
  VF_WITNESS();
}
