/* Native validation of the x87 model used by the cbmc harnesses against the real inline asm of the current
 * src/rint.h: boundary values plus pseudo-random bit patterns.  Stub validation, not a deciding step. */
#include <stdio.h>
#include <stdlib.h>
#include <string.h>
#include <math.h>
#include "rint.h"     /* real asm */
static int ie;
static int32_t m32(double x) { double r = nearbyint(x); if (!(r >= -2147483648.0 && r <= 2147483647.0)) { ie = 1; return (int32_t)(-2147483647 - 1); } return (int32_t)r; }
static int16_t m16(double x) { double r = nearbyint(x); if (!(r >= -32768.0 && r <= 32767.0)) { ie = 1; return (int16_t)(-32768); } return (int16_t)r; }
static long bad, n;
static void one(double x)
{
  int32_t a, b; int16_t c, d; int fa, fb;
  fe_clear_invalid(); rint32D(a, x); fa = !!fe_test_invalid();
  ie = 0; b = m32(x);
  if (a != b || fa != ie) { if (bad++ < 5) printf("rint32 mismatch x=%.17g asm=%d/%d model=%d/%d\n", x, a, fa, b, ie); }
  fe_clear_invalid(); rint16D(c, x); fb = !!fe_test_invalid();
  ie = 0; d = m16(x);
  if (c != d || fb != ie) { if (bad++ < 5) printf("rint16 mismatch x=%.17g asm=%d/%d model=%d/%d\n", x, c, fb, d, ie); }
  fe_clear_invalid();
  ++n;
}
int main(int argc, char ** argv)
{
  unsigned long long s = argc > 1? strtoull(argv[1], 0, 10) + 88172645463325252ull : 88172645463325252ull;
  static double const b[] = {0, .5, 1.5, 2.5, -.5, -1.5, -2.5, .49999999999999994, 32766.5, 32767, 32767.49, 32767.5, 32768, -32768, -32768.5,
    -32768.51, -32769, 2147483646.5, 2147483647, 2147483647.4, 2147483647.5, 2147483648., -2147483648., -2147483648.5, -2147483648.51,
    -2147483649., 1e10, -1e10, 1e300, -1e300, 4.9e-324, -4.9e-324};
  int i; long k;
  for (i = 0; i < (int)(sizeof b / sizeof b[0]); ++i) { one(b[i]); one(-b[i]); one(nextafter(b[i], 1e308)); one(nextafter(b[i], -1e308)); }
  one(NAN); one(INFINITY); one(-INFINITY);
  for (k = 0; k < 1000000; ++k) {
    double d; float f; unsigned u;
    s ^= s << 13; s ^= s >> 7; s ^= s << 17;
    memcpy(&d, &s, 8); one(d);
    u = (unsigned)(s >> 20); memcpy(&f, &u, 4); one((double)f);
    one((double)(long long)(s % 8589934592ull) - 4294967296. + (double)((s >> 40) & 3) * .25);
  }
  printf("x87 model vs asm: %ld values, %ld mismatches\n", n, bad);
  return bad != 0;
}
