/* C17: the process-wide FFT cache protocol - the REAL fft4g_cache.h (UPDATE_FFT_CACHE, DONE_WITH_FFT_CACHE,
 * LSX_INIT_FFT_CACHE, LSX_SAFE_RDFT) with the REAL ccrw2.h lock macros, instantiated exactly as filter.c does -
 * under cbmc's concurrency mode: VF_THREADS threads, each VF_CALLS calls of lsx_safe_rdft(len) with symbolic
 * power-of-two lengths; ALL interleavings at shared-access granularity (sequential consistency).
 * Modelled: omp locks (omp_model/omp.h), realloc (fixed storage, records the event), the transform itself
 * (lsx_rdft: a "use" of the tables between a begin and an end event), atexit.
 * Monitors: a lock is initialised once and before use, unset only when held; the tables are never reallocated nor
 * FFT_LEN changed while another thread is inside a transform; a writer is alone; a reader never runs with tables
 * smaller than it needs; every thread terminates with all locks free and FFT_LEN == max(len). */
#include "vf.h"
#include <assert.h>
#include <stdlib.h>
#include <math.h>
#define _OPENMP 201511
#include "soxr-config.h"
#include "std-types.h"
#define lsx_is_power_of_2(x) !(x < 2 || (x & (x - 1)))
#include "ccrw2.h"

/* ---- lock model ---- */
void omp_init_lock(omp_lock_t * l)
{
  __CPROVER_atomic_begin();
  VF_ASSERT(!l->inited, "a lock is initialised at most once (C17: first-use initialisation is not repeated)");
  l->inited = 1; l->held = 0;
  __CPROVER_atomic_end();
}
void omp_set_lock(omp_lock_t * l)
{
  __CPROVER_atomic_begin();
  VF_ASSERT(l->inited && !l->destroyed, "a lock is used only after its initialisation (C17)");
  __CPROVER_assume(!l->held);
  l->held = 1;
  __CPROVER_atomic_end();
}
void omp_unset_lock(omp_lock_t * l)
{
  __CPROVER_atomic_begin();
  VF_ASSERT(l->inited && l->held, "only a held lock is released (C17)");
  l->held = 0;
  __CPROVER_atomic_end();
}
void omp_destroy_lock(omp_lock_t * l) { l->destroyed = 1; }

/* ---- environment of the cache code ---- */
static int g_in_use, g_writers_in_use, g_reallocs_during_use;
/* cbmc's concurrency mode rejects shared POINTER variables ("pointer handling for concurrency is unsound"), so the two table
 * pointers are integer HANDLES in the encoded copy of fft4g_cache.h (mechanical rewrite done by vf/props/C17.py from the
 * current header, every pattern must match exactly once): realloc returns a fresh handle (generation count). */
static long vf_generation; static int vf_table_n;
static long vf_realloc(long p, size_t n)
{
  (void)p; (void)n;
  VF_ASSERT(g_in_use == 0, "the FFT tables are never reallocated while another thread's transform is using them (C17)");
  return ++vf_generation;
}
static void vf_table_write(void) { VF_ASSERT(g_in_use == 0, "the FFT tables are not written while another thread's transform is using them (C17)"); }
#define realloc(p, n) vf_realloc(p, n)
#define atexit(f) ((void)0)
#define dft_br_len(l) (2ul + (unsigned long)(l) / 4)       /* sizes only matter to realloc, which is modelled */
#define dft_sc_len(l) ((unsigned long)(l) / 2)
static int vf_need[4];                                       /* per thread: the length its current call needs */
static void vf_transform(int len, int type, double * d, long br, long sc);

#define DFT_FLOAT double
#define DONE_WITH_FFT_CACHE done_with_fft_cache
#define FFT_CACHE_CCRW fft_cache_ccrw
#define FFT_LEN fft_len
#define LSX_CDFT vf_transform
#define LSX_CLEAR_FFT_CACHE lsx_clear_fft_cache
#define LSX_FFT_BR lsx_fft_br
#define LSX_FFT_SC lsx_fft_sc
#define LSX_INIT_FFT_CACHE lsx_init_fft_cache
#define LSX_RDFT vf_transform
#define LSX_SAFE_CDFT lsx_safe_cdft
#define LSX_SAFE_RDFT lsx_safe_rdft
#define UPDATE_FFT_CACHE update_fft_cache
#undef free
#define free(p) ((void)0)
#include "fft4g_cache_enc.h"      /* generated from /repo/src/fft4g_cache.h, see above */

static void vf_transform(int len, int type, double * d, long br, long sc)
{
  long gen0; int rebuilding;
  (void)type; (void)d;
  __CPROVER_atomic_begin();
  gen0 = vf_generation;
  VF_ASSERT(br != 0 && sc != 0 && br <= vf_generation && sc == br + 1, "a transform runs on the currently allocated tables (C17)");
  VF_ASSERT(fft_len >= len, "a transform never runs with tables smaller than it needs (C17)");
  VF_ASSERT(g_writers_in_use == 0, "no transform starts while a writer is rebuilding the tables (C17)");
  VF_ASSERT(fft_cache_ccrw.w.held, "a transform runs only while the writers' lock is held - by the writer itself or, on behalf of all readers, by the first reader: otherwise a writer could start rebuilding under it (C17)");
  /* fft4g.c:rdft/cdft rebuild the twiddle / bit-reversal tables in place whenever the requested length exceeds the length the
   * tables were last built for (ip[0], here vf_table_n) - whatever lock the caller holds.  Such a transform must be alone: */
  rebuilding = len > vf_table_n;
  if (rebuilding) {
    VF_ASSERT(g_in_use == 0, "the tables are rebuilt (transform longer than the tables) only while no other transform is using them (C17)");
    VF_ASSERT(fft_cache_ccrw.writecount > 0 && fft_cache_ccrw.w.held, "a transform that rebuilds the shared tables runs under the WRITE lock: a reader never rebuilds (C17)");
    ++g_writers_in_use;
  }
  ++g_in_use;
  __CPROVER_atomic_end();
  /* ... the transform reads (reader) or rebuilds (writer: len > 4 * table size) the tables here ... */
  __CPROVER_atomic_begin();
  VF_ASSERT(vf_generation == gen0 && fft_len >= len, "the tables a transform uses are neither replaced nor re-sized until it ends (C17)");
  if (rebuilding) { vf_table_n = len; --g_writers_in_use; }
  --g_in_use;
  __CPROVER_atomic_end();
}

#ifndef VF_THREADS
#define VF_THREADS 2
#endif
#ifndef VF_CALLS
#define VF_CALLS 1
#endif
static int in_len[VF_THREADS][VF_CALLS];
static int g_done;
static void thread_body(int t)
{
  int c; double * dummy = 0;     /* (an address-taken local passed as a pointer makes cbmc's concurrency mode refuse the program) */
  for (c = 0; c < VF_CALLS; ++c) lsx_safe_rdft(in_len[t][c], 1, dummy);
  __CPROVER_atomic_begin(); ++g_done; __CPROVER_atomic_end();
}

VF_MAIN
{
  int t, c, mx = 0;
  for (t = 0; t < VF_THREADS; ++t) for (c = 0; c < VF_CALLS; ++c) {
    int l = nondet_int();
#ifdef VF_LEN4
    __CPROVER_assume(l == 8 || l == 16 || l == 32 || l == 64);
#else
    __CPROVER_assume(l == 8 || l == 16 || l == 32);
#endif
    in_len[t][c] = l; if (l > mx) mx = l;
  }
#ifdef KF_C17_LAZY_INIT      /* known finding excluded: first use happens before the threads start */
  lsx_init_fft_cache();
#endif
#ifdef VF_WARM                /* an earlier, completed transform of this length: the threads then meet a filled cache, so that calls up to this
                               * length are concurrent READERS (with an empty cache every first call is a writer) */
  { double * dummy0 = 0; lsx_safe_rdft(VF_WARM, 1, dummy0); }
#endif
  __CPROVER_ASYNC_1: thread_body(0);
#if VF_THREADS > 1
  __CPROVER_ASYNC_2: thread_body(1);
#endif
#if VF_THREADS > 2
  __CPROVER_ASYNC_3: thread_body(2);
#endif
  __CPROVER_assume(g_done == VF_THREADS);
  VF_ASSERT(fft_len >= mx, "after all calls the cache covers the largest length requested (C17/C10)");
  VF_ASSERT(fft_cache_ccrw.readcount == 0 && fft_cache_ccrw.writecount == 0, "no reader/writer registration is left behind (C17)");
  VF_ASSERT(!fft_cache_ccrw.w.held && !fft_cache_ccrw.r.held && !fft_cache_ccrw.mutex_1.held && !fft_cache_ccrw.mutex_2.held && !fft_cache_ccrw.mutex_3.held, "all locks are free at the end (C17)");
  VF_WITNESS();
}
