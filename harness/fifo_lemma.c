/* FIFO lemma (fifo.h, the real file, both instantiations use the same code): from ANY fifo state with begin <= end <= allocation,
 * one fifo_reserve(n) / fifo_write / fifo_read / fifo_trim_by call:
 *   - reserve returns a pointer to n*item_size writable bytes inside the (possibly moved or grown) allocation, directly after
 *     the buffered bytes; the buffered byte sequence [begin, end) is preserved (checked at a symbolic index) across the
 *     compaction (memmove) and growth (realloc) paths; the state invariant is re-established; occupancy grows by exactly n;
 *   - read returns NULL and changes nothing when asked for more than is buffered, else hands out the oldest n items once;
 *   - occupancy never truncates.
 * The compaction threshold FIFO_MIN is lowered to 16 bytes here (fifo.h lets the includer define it; the library uses 0x4000 /
 * 0x8000) so that every path is reachable with allocations of 64 bytes: sizes are symbolic but small (cbmc's realloc/memmove). */
#include "vf.h"
#include <string.h>
#include <stdlib.h>
#define FIFO_MIN 16
#define FIFO_SIZE_T int
#include "fifo.h"
#ifndef VF_OP
#define VF_OP 0
#endif
#ifndef VF_SHAPE
#define VF_SHAPE 0
#endif

VF_MAIN
{
  IN_UINT(in_begin); IN_UINT(in_occ); IN_UINT(in_n); IN_UINT(in_k); IN_UINT(in_item8);
  fifo_t f; unsigned char * d = malloc(64); unsigned char snap[64]; unsigned i; size_t occ_bytes, item;
  VF_ASSUME(d != 0);
  item = (in_item8 & 1)? 8 : 4;
  VF_ASSUME(in_begin <= 16 && in_occ <= 16 && (in_begin + in_occ) * item <= 64 && in_n <= 6);
#if VF_OP == 0
  /* memmove / realloc with symbolic lengths need > 30 GB in cbmc (measured): the offsets are one of four concrete shapes - fits /
   * compaction / growth / compaction then growth - the buffered DATA and the inspected index stay symbolic */
  { static unsigned const shape[4][3] = {{2, 4, 3}, {6, 8, 4}, {0, 14, 5}, {5, 11, 6}};
    in_begin = shape[VF_SHAPE][0]; in_occ = shape[VF_SHAPE][1]; in_n = shape[VF_SHAPE][2]; in_item8 = 0; item = 4; }
#endif
  f.data = (char *)d; f.allocation = 64; f.item_size = item; f.begin = in_begin * item; f.end = (in_begin + in_occ) * item;
  occ_bytes = in_occ * item;
  { IN_ARR(unsigned char, in_data, 64); for (i = 0; i < 64; ++i) { d[i] = in_data[i]; snap[i] = d[i]; } }
  VF_ASSUME(in_k < 64);
#if VF_OP == 0
  {
    unsigned char * p = fifo_reserve(&f, (int)in_n);
    VF_ASSERT(p != 0, "reserve succeeds when memory is available");
    VF_ASSERT(f.begin <= f.end && f.end <= f.allocation, "FIFO invariant begin <= end <= allocation (C07)");
    VF_ASSERT((size_t)fifo_occupancy(&f) == in_occ + in_n, "occupancy grows by exactly n (C05)");
    VF_ASSERT(p == (unsigned char *)f.data + f.end - in_n * item, "the reserved region directly follows the buffered samples (C05)");
    if (in_k < occ_bytes)
      VF_ASSERT(((unsigned char *)f.data)[f.begin + in_k] == snap[in_begin * item + in_k], "buffered bytes are preserved across compaction and growth (C05)");
    if (in_n) { p[0] = 1; p[in_n * item - 1] = 2; }       /* the whole reserved region is writable (pointer checks) */
    free(f.data);
  }
#elif VF_OP == 1
  {
    size_t b0 = f.begin, e0 = f.end;
    unsigned char * p = fifo_read(&f, (int)in_n, 0);
    if (in_n > in_occ) VF_ASSERT(p == 0 && f.begin == b0 && f.end == e0, "read of more than is buffered is refused and changes nothing (C07)");
    else {
      VF_ASSERT(p == d + b0 && f.begin == b0 + in_n * item && f.end == e0, "read hands out the oldest n items exactly once (C05)");
      VF_ASSERT((size_t)fifo_occupancy(&f) == in_occ - in_n, "occupancy shrinks by exactly n");
    }
    if (in_n <= in_occ) { fifo_trim_by(&f, (int)(in_occ - in_n)); VF_ASSERT(fifo_occupancy(&f) == 0 && f.end == f.begin, "trim_by removes exactly the newest items (C03)"); }
    free(d);
  }
#endif
  VF_WITNESS();
}
