/* L1: ONE public API call from an arbitrary reachable API state, over the
 * abstract engine (abs_engine.h).  Real code: soxr.c (every function reached by
 * the call) and data-io.c + rint-clip.h (separate TU).
 *
 * Inductive-step form: the resampler object is constructed directly in the
 * state the real soxr_create leaves for the obligation's configuration
 * (datatypes, layouts, engine, channel count are compile-time: allocation and
 * memcpy with symbolic sizes do not get through cbmc, see api_common.h); the
 * history-dependent scalars of struct soxr (flushing, error, clips, seed,
 * input function, max_ilen) and the engine's behaviour (supply per round) are
 * nondeterministic - every API history ends in such a state - and one call
 * VF_OP with symbolic sizes is made.
 *
 * Assertions are grouped by the property they belong to:
 *  C07 buffer contract + (instrumented) memory safety   C18 input-function contract
 *  C05/C06 order/once/channel of frames on both sides   C03/C08 loop termination (unwinding assertion)
 *  C09 sticky error: no engine call, no output. */
#undef memcpy
#include "vf.h"
#include "soxr.c"
#include "abs_engine.h"
#include "api_common.h"

#ifndef VF_OP
#define VF_OP 0
#endif

static size_t eng_taken(unsigned c) { return vf_objs[c].in_total + vf_objs[c].inbuf_n; }
static size_t fn_seq_base(void) { return eng_taken(0); }

/* output frames 0..odone-1 carry the engine's sequence numbers, for every channel, in the caller's layout */
static void check_out_seq(void const * out, size_t odone, int exact)
{
  size_t j; unsigned c;
  for (j = 0; j < VF_CAP; ++j) for (c = 0; c < VF_CH; ++c) if (j < odone) {
    double v = get_sample(g_otype, out, VF_CH, j, c);
    if (exact) VF_ASSERT(v == (double)(8 * j + c), "output: frame j of channel c is the engine's j-th frame of channel c (C05/C06)");
  }
}

VF_MAIN
{
  IN_UINT(in_nthreads); IN_UINT(in_nodither); IN_DBL(in_ratio); IN_UINT(in_maxilen);
  IN_UINT(in_flushing); IN_UINT(in_err); IN_ULONG(in_seed); IN_UINT(in_ilen); IN_UINT(in_olen);
  IN_UINT(in_want_idone); IN_UINT(in_flushneg); IN_UINT(in_hasfn); IN_ULONG(in_clips);
  soxr_t p;
  size_t ilen = in_ilen, olen = in_olen, idone = 77, odone = 77, clips0;
  unsigned c;
  /* int16 output is dithered unless SOXR_NO_DITHER: values may move by one LSB, so exact comparison only without */
  int const exact_out = (VF_OTYPE & 3) <= SOXR_FLOAT64;   /* integer output goes through the (abstracted) x87 path: C11's subject */

  AE_NONDET();
  IN_GARR(in_fn_ret); IN_GARR(in_fn_kind);
  VF_ASSUME(in_ae_delay == in_ae_delay);   /* not NaN, so that it can be compared */
  VF_ASSUME(in_nthreads < 2 && in_nodither < 2 && in_flushing < 2 && in_err < 2);
  VF_ASSUME(in_ratio >= 1. / 4096 && in_ratio <= 4096.);
  VF_ASSUME(in_maxilen <= VF_CAP && ilen <= VF_CAP && olen <= VF_CAP && in_hasfn < 2);
  g_ch = VF_CH;
  fn_seq = 1;
  p = vf_make_soxr(in_ratio, in_nthreads, in_nodither? SOXR_NO_DITHER : 0);
  /* arbitrary reachable history-dependent state */
  p->flushing = (int)in_flushing;
  p->error = in_err? "some earlier error" : 0;
  p->seed = in_seed;
  p->clips = clips0 = in_clips;
  if (in_hasfn) { fn_max_ilen = in_maxilen; soxr_set_input_fn(p, vf_input_fn, 0, in_maxilen); }

#if VF_OP == 0      /* push */
  {
    void * in = make_buf(g_itype, VF_CH, ilen), * out = make_buf(g_otype, VF_CH, olen);
    size_t ilen0 = (in_flushneg & 1)? ~ilen : ilen;
    soxr_error_t e;
    fill_seq(g_itype, in, VF_CH, ilen, 0);
    e = soxr_process(p, in, ilen0, (in_want_idone & 1)? &idone : 0, out, olen, &odone);
    VF_ASSERT(odone <= olen, "process: odone <= olen (C07)");
    if (in_want_idone & 1) VF_ASSERT(idone <= ilen, "process: idone <= ilen (C07)");
    VF_ASSERT(e == soxr_error(p), "process returns the sticky error (C09)");
    if (!in_hasfn) for (c = 0; c < VF_CH; ++c) {
      if (in_want_idone & 1)
        VF_ASSERT(eng_taken(c) == idone, "process: frames handed to the engine == idone, every channel (C05/C07)");
      VF_ASSERT(eng_taken(c) <= ilen, "process: never takes more than ilen frames (C07)");
      VF_ASSERT(vf_objs[c].out_total == odone, "process: frames drawn from the engine == odone, every channel (C05/C06)");
    }
    if (!in_hasfn && in_err)
      VF_ASSERT(odone == 0 || (VF_ITYPE & VF_OTYPE & SOXR_SPLIT), "error state: no output (C09)");
    if (!in_hasfn) check_out_seq(out, odone, exact_out);
  }
#elif VF_OP == 1    /* end of input: in == NULL */
  {
    void * out = make_buf(g_otype, VF_CH, olen);
    soxr_process(p, 0, 0, (in_want_idone & 1)? &idone : 0, out, olen, &odone);
    VF_ASSERT(odone <= olen, "process(flush): odone <= olen (C07)");
    if (in_want_idone & 1) VF_ASSERT(idone == 0, "process(flush): idone == 0 (C07)");
    for (c = 0; c < VF_CH; ++c) VF_ASSERT(eng_taken(c) == 0 || in_hasfn, "process(flush): nothing is input");
    if (!in_err) VF_ASSERT(p->flushing, "process(in == NULL) latches end-of-input (C03)");
    if (!in_err && odone) for (c = 0; c < VF_CH; ++c)
      VF_ASSERT(vf_objs[c].flushing, "end-of-input reaches every channel's engine before output is drawn (C03)");
    if (!in_hasfn) check_out_seq(out, odone, exact_out);
  }
#elif VF_OP == 2    /* pull */
  {
    void * out = make_buf(g_otype, VF_CH, olen);
    unsigned was_err = in_err;
    VF_ASSUME(in_hasfn);
    odone = soxr_output(p, out, olen);
    VF_ASSERT(odone <= olen, "output: odone <= olen (C07)");
    VF_ASSERT(fn_max_request <= (in_maxilen? in_maxilen : (size_t)-1), "input fn: request <= max_ilen (C18)");
    if (was_err) VF_ASSERT(odone == 0 && fn_calls == 0 && ae_total_out_calls == 0, "error state: no output, no input-fn call, no engine call (C09)");
    if (in_flushing) VF_ASSERT(fn_calls == 0, "input fn is not called once end-of-input is latched (C18)");
    VF_ASSERT(fn_calls_after_end == 0, "input fn not called again after it reported end-of-input (C18)");
    VF_ASSERT(fn_calls_after_fail == 0, "input fn not called again after it reported failure (C18)");
    if (fn_failed) VF_ASSERT(soxr_error(p) != 0, "failure of the input fn puts the resampler in the error state (C18)");
    if (fn_ended && !was_err) VF_ASSERT(p->flushing, "end-of-input from the input fn is latched (C18)");
    if (fn_ended && !was_err && odone < olen) for (c = 0; c < VF_CH; ++c)
      VF_ASSERT(vf_objs[c].flushing && vf_objs[c].proc_after_flush && vf_objs[c].out_after_flush,
          "once the input fn has reported end-of-input the same call goes on to drain: every engine is flushed and asked for output again (C03/C08/C18)");
    if (!was_err && !fn_failed) for (c = 0; c < VF_CH; ++c)
      VF_ASSERT(eng_taken(c) == fn_supplied, "everything the input fn supplied is handed to the engine exactly once (C18)");
    for (c = 0; c < VF_CH; ++c)
      VF_ASSERT(vf_objs[c].out_total == odone, "output: frames drawn from the engine == odone, every channel (C05/C06)");
    check_out_seq(out, odone, exact_out);
  }
#elif VF_OP == 4    /* queries, ratio change, channel change on an initialised object */
  {
    IN_DBL(in_r2); IN_UINT(in_slew);
    double d; size_t * cl; char const * e; soxr_error_t e1, e2; double ratio0 = p->io_ratio;
    VF_ASSUME(in_r2 >= 1. / 4096 && in_r2 <= 4096.);
    e1 = soxr_set_io_ratio(p, in_r2, in_slew);
    if (in_err) VF_ASSERT(e1 != 0, "set_io_ratio returns the pending error (C09)");
    if (!in_err && VF_KIND != 8) {
      VF_ASSERT((e1 == 0) == (fabs(ratio0 - in_r2) < 1e-15), "constant-rate engine refuses a different ratio, accepts the same (C16)");
      VF_ASSERT(p->io_ratio == ratio0, "refused ratio change leaves the object unchanged (C16)");
    }
    if (!in_err && VF_KIND == 8) for (c = 0; c < VF_CH; ++c)
      VF_ASSERT(e1 == 0 && vf_objs[c].setratio_calls == 1 && vf_objs[c].last_ratio == in_r2 && vf_objs[c].last_slew == in_slew,
          "variable-rate engine: ratio and slew length forwarded to every channel (C16)");
    d = soxr_delay(p); cl = soxr_num_clips(p); e = soxr_engine(p);
    if (in_err) VF_ASSERT(d == 0, "delay is 0 in the error state (C15)");
    else VF_ASSERT(d == in_ae_delay, "delay is the engine's (C15)");
    VF_ASSERT(*cl == clips0, "queries do not change the clip counter");
    VF_ASSERT(e == (VF_KIND == 0? ae_id32() : VF_KIND == 2? ae_id32s() : VF_KIND == 1? ae_id64() : VF_KIND == 3? ae_id64s() : ae_idvr()),
        "soxr_engine names the engine in use (C13)");
    e2 = soxr_set_num_channels(p, VF_CH + 1);
    VF_ASSERT(e2 != 0 && p->num_channels == VF_CH, "channel count of an initialised resampler cannot change (C07/C09)");
  }
#endif
  check_canaries();
  VF_WITNESS();
}
