/* C12 (gain folded into the poly-phase coefficient table exactly once, into EVERY interpolation order) and C13/C01
 * (both table layouts hold the same numbers): the real prepare_poly_fir_coefs of cr.c (static; reached by inclusion).
 * For a power-of-two gain m every stored coefficient of table(m) must be exactly m times the coefficient of table(1)
 * (all table entries are linear in the prototype taps and scaling by 2^k is exact), for all prototype values, table
 * shapes, interpolation orders 0..3 and the four core layouts (coef / coef4, float / double). */
#include "vf.h"
#include <string.h>
#include <stdlib.h>
#include <math.h>
#include "cr.c"
#ifndef VF_ORDER
#define VF_ORDER 1
#endif
#ifndef VF_CORE
#define VF_CORE 0
#endif
#ifndef VF_CONT
#define VF_CONT 0
#endif
#ifndef VF_MULT
#define VF_MULT 4.0
#endif
#ifndef VF_NC
#define VF_NC 2
#endif
#ifndef VF_NP
#define VF_NP 2
#endif
#define NC VF_NC
#define NP VF_NP
#define MAXLEN (4 * NP * 4)
static double pool[2][MAXLEN]; static unsigned pool_k;
static void * vf_tab_calloc(size_t a, size_t b) { unsigned k = pool_k++; VF_ASSERT(k < 2 && a * b <= sizeof(pool[0]), "harness bound: table size"); return pool[k & 1]; }
static void vf_tab_free(void * p) { (void)p; }

VF_MAIN
{
  IN_ARR(double, in_taps, NC * NP); IN_UINT(in_nc); IN_UINT(in_np);
  alloc_t mem; real * t1, * tm; int len, i, nc4;
  mem.alloc = 0; mem.calloc = vf_tab_calloc; mem.free = vf_tab_free;
  VF_ASSUME(in_nc == VF_NC && in_np == VF_NP);       /* table shape constant per obligation (symbolic shapes make every store a symbolic-index write) */
  in_nc = VF_NC; in_np = VF_NP;
#ifdef VF_ONEHOT   /* basis input: one symbolic tap position carries a symbolic integer value, the others are 0; the table is linear in the taps */
  { IN_UINT(in_t); IN_INT(in_iv); VF_ASSUME(in_t >= 1 && in_t < NC * NP && in_iv >= -VF_ONEHOT && in_iv <= VF_ONEHOT);
    for (i = 0; i < NC * NP; ++i) in_taps[i] = (unsigned)i == in_t? (double)in_iv : 0.; }
#endif
  for (i = 0; i < NC * NP; ++i) VF_ASSUME(in_taps[i] == 0 || (fabs(in_taps[i]) >= 1e-6 && fabs(in_taps[i]) <= 1e6));
  /* cr.c:37 seeds the recursion with coefs[0] UNSCALED (it stands, by symmetry, for the outermost tap, which is ~0 in a windowed
   * design: below any precision).  Observation, not a violation; excluded here by taking that tap as 0. */
  VF_ASSUME(in_taps[0] == 0);
  nc4 = (VF_CORE & CORE_SIMD_POLY)? (((int)in_nc + 3) & ~3) : (int)in_nc;
  len = nc4 * (int)in_np * (VF_ORDER + 1);
#if VF_CONT
  /* continuity lemma (C01: fractional-delay interpolation of the coefficients): the order-k polynomial stored for (phase j, tap i),
   * evaluated at x = 1, equals the order-0 coefficient of the NEXT phase of the same prototype position - i.e. the interpolated
   * coefficient runs through the prototype samples, for every entry and both table layouts (basis inputs: one tap, multiple of 12) */
  { int ph, tp, ord_; real * tt; (void)tm;
    for (i = 0; i < NC * NP; ++i) VF_ASSUME(in_taps[i] == (double)((long)in_taps[i] / 12 * 12));
    tt = prepare_poly_fir_coefs(in_taps, (int)in_nc, (int)in_np, VF_ORDER, 1., VF_CORE, &mem);
    for (ph = 0; ph + 1 < NP; ++ph) for (tp = 0; tp < NC; ++tp) {
      double v = 0, nxt;
      for (ord_ = VF_ORDER; ord_ >= 0; --ord_)
#if VF_CORE & 2
        v += (VF_CORE & 1)? (double)coef4((double *)tt, VF_ORDER, nc4, ph, ord_, tp) : (double)coef4((float *)tt, VF_ORDER, nc4, ph, ord_, tp);
      nxt = (VF_CORE & 1)? (double)coef4((double *)tt, VF_ORDER, nc4, ph + 1, 0, tp) : (double)coef4((float *)tt, VF_ORDER, nc4, ph + 1, 0, tp);
#else
        v += (VF_CORE & 1)? (double)coef((double *)tt, VF_ORDER, nc4, ph, ord_, tp) : (double)coef((float *)tt, VF_ORDER, nc4, ph, ord_, tp);
      nxt = (VF_CORE & 1)? (double)coef((double *)tt, VF_ORDER, nc4, ph + 1, 0, tp) : (double)coef((float *)tt, VF_ORDER, nc4, ph + 1, 0, tp);
#endif
      VF_ASSERT(fabs(v - nxt) <= 1e-6 * (1 + fabs(nxt)), "interpolated coefficient polynomial at x = 1 meets the next phase's prototype sample (C01)");
    }
    VF_WITNESS(); return; }
#endif
  t1 = prepare_poly_fir_coefs(in_taps, (int)in_nc, (int)in_np, VF_ORDER, 1., VF_CORE, &mem);
  tm = prepare_poly_fir_coefs(in_taps, (int)in_nc, (int)in_np, VF_ORDER, VF_MULT, VF_CORE, &mem);
  for (i = 0; i < MAXLEN; ++i) if (i < len) {
#if VF_CORE & 1
    VF_ASSERT(((double *)tm)[i] == VF_MULT * ((double *)t1)[i], "every table entry (all interpolation orders) carries the gain exactly once (C12)");
#else
    VF_ASSERT(((float *)tm)[i] == (float)VF_MULT * ((float *)t1)[i], "every table entry (all interpolation orders) carries the gain exactly once (C12)");
#endif
  }
  VF_WITNESS();
}
