/* ENV-(b) driver (native): the REAL soxr_create / _soxr_init of the current tree run for one configuration per input line;
 * prints, as JSON lines, the stage plan read out of the real structs (soxr.c is included textually so that struct soxr
 * is visible; every other unit is linked from objects compiled from /repo/src).  vf/planenv.py compares each stage with
 * the stage envelope ENV(kind) that the kernel obligations (kern_step.c, dft_step.c, cr_drv.c) ASSUME: the
 * assume/guarantee loop between planner and kernels is closed per configuration of a stated list (enumeration, labelled
 * as such in the evidence - the whole planner is not symbolically executable, DESIGN.md I.2). */
#include <stdio.h>
#include "soxr.c"
#include "cr.h"

int main(void)
{
  char line[512];
  while (fgets(line, sizeof(line), stdin)) {
    double irate, orate, precision, phase, passband, scale; unsigned long recipe, qflags, rtflags; unsigned mindft, largedft;
    soxr_quality_spec_t q; soxr_runtime_spec_t rt; soxr_io_spec_t io; soxr_error_t err; soxr_t p; int i;
    if (sscanf(line, "%lf %lf %lu %lu %lf %lf %lf %lu %u %u %lf", &irate, &orate, &recipe, &qflags, &precision, &phase, &passband, &rtflags, &mindft, &largedft, &scale) != 11) continue;
    q = soxr_quality_spec(recipe, qflags); rt = soxr_runtime_spec(1); io = soxr_io_spec(SOXR_FLOAT64_I, SOXR_FLOAT64_I);
    if (precision >= 0) q.precision = precision;
    if (phase >= 0) q.phase_response = phase;
    if (passband >= 0) q.passband_end = passband;
    rt.flags = rtflags; rt.log2_min_dft_size = mindft; rt.log2_large_dft_size = largedft; io.scale = scale;
    p = soxr_create(irate, orate, 1, &err, &io, &q, &rt);
    printf("{\"cfg\":\"%s\",\"error\":%s%s%s", strtok(line, "\n"), err? "\"" : "", err? err : "null", err? "\"" : "");
    if (p && p->resamplers && !(q.flags & SOXR_VR)) {
      rate_t * r = p->resamplers[0];
      printf(",\"engine\":\"%s\",\"io_ratio\":%.17g,\"num_stages\":%d,\"phase\":%.17g,\"precision\":%.17g,\"stages\":[", soxr_engine(p), r->io_ratio, r->num_stages, q.phase_response, q.precision);
      for (i = 0; i <= r->num_stages; ++i) {
        stage_t * s = &r->stages[i];
        dft_filter_t * f = s->shared? &s->shared->dft_filter[s->dft_filter_num] : 0;
        printf("%s{\"i\":%d,\"pre\":%d,\"pre_post\":%d,\"preload\":%d,\"input_size\":%d,\"is_input\":%d,\"n\":%d,\"phase_bits\":%d,\"L\":%d,\"remM\":%d,"
            "\"block_len\":%d,\"step\":%lld,\"step_ls\":%llu,\"at\":%lld,\"at_ls\":%llu,\"hi_prec\":%d,\"oir\":%.17g,\"mult\":%.17g,\"phase0\":%.17g,"
            "\"core_flags\":%d,\"occ\":%d,\"item\":%d,\"has_coefs\":%d,\"has_fn\":%d,\"dft_length\":%d,\"num_taps\":%d,\"post_peak\":%d,\"has_poly\":%d}",
            i? "," : "", i, s->pre, s->pre_post, s->preload, s->input_size, (int)s->is_input, s->n, s->phase_bits, s->L, s->remM,
            s->block_len, (long long)s->step.whole, (unsigned long long)s->step.fix.ls.all, (long long)s->at.whole, (unsigned long long)s->at.fix.ls.all,
            (int)s->use_hi_prec_clock, s->out_in_ratio, s->mult, s->phase0, (int)s->core_flags, (int)fifo_occupancy(&s->fifo), (int)s->fifo.item_size,
            s->coefs != 0, s->fn != 0, f? f->dft_length : 0, f? f->num_taps : 0, f? f->post_peak : 0, s->shared && s->shared->poly_fir_coefs != 0);
      }
      printf("]");
    }
    printf("}\n");
    if (p) soxr_delete(p);
  }
  return 0;
}
