/* C14 (4) / C01: soxr_quality_spec (real soxr.c): for EVERY recipe word and flags word, the two phase bits select
 * phase_response 50 / 25 / 0 (linear / intermediate / minimum; the undocumented 0x20 gives 100) and NOTHING else in the
 * returned spec depends on them; precision / pass-band / roll-off class follow the recipe's quality number. */
#include "vf.h"
#include "soxr.c"
#if !defined VF_NATIVE
double log10(double x) { VF_ASSERT(x == 2., "harness: soxr.c only takes log10 of 2"); return 0.30102999566398120; }
#endif
double in_inv_f_resp;
double _soxr_inv_f_resp(double drop, double a) { (void)drop; (void)a; return in_inv_f_resp; }

VF_MAIN
{
  IN_ULONG(in_recipe); IN_ULONG(in_flags); IN_ULONG(in_other);
  soxr_quality_spec_t a, b;
  unsigned q0 = (unsigned)(in_recipe & 0xf), ph = (unsigned)((in_recipe & 0x30) >> 4);
  unsigned q = q0 > 12? 6 : q0 > 10? 0 : q0;      /* 13..15 are aliases of VHQ, 11..12 of QQ (libsamplerate ids 8..10 follow) */
  in_inv_f_resp = 0.42;     /* a constant: .05 / (1 - x) with symbolic x is a symbolic double division (no verdict within the budget) */
  VF_ASSUME(in_flags < 0x80000000ul);
  a = soxr_quality_spec(in_recipe, in_flags);
  b = soxr_quality_spec((in_recipe & ~0x30ul) | ((in_other & 3) << 4), in_flags);
  if (!a.e) {
    VF_ASSERT(a.phase_response == (ph == 0? 50 : ph == 1? 25 : ph == 3? 0 : 100), "phase bits select linear 50 / intermediate 25 / minimum 0 (C14)");
    VF_ASSERT(b.e == 0 && a.precision == b.precision && a.passband_end == b.passband_end && a.stopband_begin == b.stopband_begin && a.flags == b.flags,
        "nothing but phase_response depends on the phase bits: magnitude spec, precision and flags are those of linear phase (C14)");
    VF_ASSERT(a.stopband_begin == 1, "recipes put the stop-band start at the Nyquist frequency");
    if (q == SOXR_QQ) VF_ASSERT(a.precision == 0, "QQ: cubic interpolation");
    if (q >= 1 && q <= 3) VF_ASSERT(a.precision == 16, "LQ/MQ/16-bit recipes: 16 bits (C01)");
    if (q >= 4 && q <= 7) VF_ASSERT(a.precision == 4 + 4 * q, "20/24/28/32-bit recipes (C01)");
    if (q >= 4 && q <= 7) VF_ASSERT((a.flags & 3) == (in_flags & 3), "roll-off class of the HQ+ recipes is the caller's (C01)");
    if (q >= 1 && q <= 2) VF_ASSERT((a.flags & 3) == SOXR_ROLLOFF_MEDIUM, "LQ/MQ use the medium roll-off class (C01)");
    if (q == 1 && !(in_recipe & SOXR_STEEP_FILTER)) VF_ASSERT(a.passband_end == 1385 / 2048., "LQ pass-band end (C01)");
    VF_ASSERT(a.passband_end > 0 && a.passband_end < 1, "pass-band end below the Nyquist frequency (C01)");
    if (q0 < SOXR_LSR0Q) VF_ASSERT(a.flags & RESET_ON_CLEAR, "native recipes are reset by soxr_clear: clear == fresh (C10)");
    if (q0 >= SOXR_LSR0Q && q0 <= SOXR_LSR0Q + 4) VF_ASSERT(!(a.flags & RESET_ON_CLEAR), "the five libsamplerate converter types (recipes LSR0Q .. LSR0Q+4) are NOT re-initialised by soxr_clear: after src_reset the next block supplies the ratio, as for a new converter (C19)");
  }
  VF_WITNESS();
}
