/* Abstract resampling engine behind soxr.c's control_block interface (layer
 * contract L1|L2 of DESIGN.md).  Included AFTER "soxr.c" in a harness TU; it
 * defines the five control blocks soxr.c links against, so the real
 * soxr_create picks one of them exactly as in the library.
 *
 * Contract modelled (what cr.c/vr32.c guarantee, proved on their side by the
 * L2 harnesses):  input(n) returns a writable buffer of exactly n samples;
 * output(&n) returns a readable buffer of n' <= n samples, all channels of one
 * resampler returning the same n' in one round; flush latches; delay returns
 * any double; create returns 0 or an error string.
 * Buffers are malloc'ed with EXACTLY the contract size, so any read/write of
 * soxr.c/data-io.c outside the contract is a pointer-check failure.
 * Ghost sequence numbers: caller frame j of channel c carries the value
 * 8*j+c; the engine checks that what it was given is the next frames in order
 * (consume-once, in order, right channel) and emits 8*k+c for its k-th output
 * frame, which the harness looks for in the caller's output buffer. */
#ifndef AE_ROUNDS
#define AE_ROUNDS 6
#endif
#ifndef AE_MAXCH
#define AE_MAXCH 4
#endif

typedef struct ae_chan {
  int kind;                 /* bit0: double samples; 8: variable-rate capable */
  int created, closed, flushing, id;
  unsigned in_calls, out_calls, proc_calls, flush_calls, setratio_calls, out_after_flush, proc_after_flush;
  size_t in_total, out_total;
  void * inbuf; size_t inbuf_n;
  void * outbuf;
#ifdef AE_FIXED_BUFS
  double inmem[AE_FIXED_BUFS + 1], outmem[AE_FIXED_BUFS + 1];   /* fixed storage: no allocation per engine call */
#endif
  void * shared;
  double io_ratio, scale, last_ratio; size_t last_slew;
  soxr_quality_spec_t q; soxr_runtime_spec_t r;
} ae_chan_t;

unsigned in_ae_avail[AE_ROUNDS];   /* samples the engine can deliver in its k-th output call */
double   in_ae_delay;
int      in_ae_create_err = -1;    /* index (creation order) of the channel whose create fails */
int      ae_check_seq = 1;         /* check ghost sequence numbers of the input */
int      ae_n_created, ae_n_closed, ae_n_live, ae_n_create_failed;
unsigned ae_total_out_calls, ae_total_in_calls, ae_total_proc_calls, ae_total_flush_calls;
unsigned ae_engine_calls_after_mark; int ae_mark;
ae_chan_t * ae_chans[AE_MAXCH];

static void ae_touch(void) { if (ae_mark) ++ae_engine_calls_after_mark; }

static void ae_commit(ae_chan_t * c)
{ /* the samples written into the last input buffer are consumed now */
  size_t j;
#ifndef AE_NO_SEQ
  if (c->inbuf && ae_check_seq) for (j = 0; j < c->inbuf_n; ++j) {
    double v = (c->kind & 1)? ((double *)c->inbuf)[j] : (double)((float *)c->inbuf)[j];
    VF_ASSERT(v == (double)(8 * (c->in_total + j) + (unsigned)c->id),
        "engine input: frames are handed over once, in order, to the right channel");
  }
#endif
  c->in_total += c->inbuf_n;
#ifndef AE_FIXED_BUFS
  free(c->inbuf);
#endif
  c->inbuf = 0; c->inbuf_n = 0;
}

static sample_t * ae_input(void * p, sample_t * samples, size_t n)
{
  ae_chan_t * c = p; (void)samples;
  ae_touch();
  VF_ASSERT(c->created && !c->closed, "engine input: object is live");
  ae_commit(c);
  ++c->in_calls; ++ae_total_in_calls;
  c->inbuf_n = n;
#ifdef AE_FIXED_BUFS
  VF_ASSERT(n <= AE_FIXED_BUFS, "harness bound: engine input request within AE_FIXED_BUFS");
  c->inbuf = c->inmem;
#else
  c->inbuf = malloc(n * ((c->kind & 1)? sizeof(double) : sizeof(float)));
  VF_ASSUME(c->inbuf != 0);
#endif
  return c->inbuf;
}

static void ae_process(void * p, size_t olen)
{
  ae_chan_t * c = p; (void)olen;
  ae_touch();
  VF_ASSERT(c->created && !c->closed, "engine process: object is live");
  ae_commit(c);
  ++c->proc_calls; ++ae_total_proc_calls; if (c->flushing) ++c->proc_after_flush;
}

static sample_t const * ae_output(void * p, sample_t * samples, size_t * n)
{
  ae_chan_t * c = p; size_t j, got, avail; (void)samples;
  ae_touch();
  VF_ASSERT(c->created && !c->closed, "engine output: object is live");
  ae_commit(c);
  avail = c->out_calls < AE_ROUNDS? in_ae_avail[c->out_calls] : 0;
  ++c->out_calls; ++ae_total_out_calls; if (c->flushing) ++c->out_after_flush;
  got = *n < avail? *n : avail;
#ifdef AE_FIXED_BUFS
  VF_ASSERT(got <= AE_FIXED_BUFS, "harness bound: engine output within AE_FIXED_BUFS");
  c->outbuf = c->outmem;
#else
  free(c->outbuf);
  c->outbuf = malloc(got * ((c->kind & 1)? sizeof(double) : sizeof(float)));
  VF_ASSUME(c->outbuf != 0);
#endif
  for (j = 0; j < got; ++j) {
    double v = (double)(8 * (c->out_total + j) + (unsigned)c->id);
    if (c->kind & 1) ((double *)c->outbuf)[j] = v; else ((float *)c->outbuf)[j] = (float)v;
  }
  c->out_total += got;
  *n = got;
  return c->outbuf;
}

static void ae_flush(void * p)
{
  ae_chan_t * c = p;
  ae_touch();
  VF_ASSERT(c->created && !c->closed, "engine flush: object is live");
  ae_commit(c);
  c->flushing = 1; ++c->flush_calls; ++ae_total_flush_calls;
}

static void ae_close(void * p)
{
  ae_chan_t * c = p;
  VF_ASSERT(!c->closed, "engine close: not closed twice");
#ifndef AE_FIXED_BUFS
  free(c->inbuf); free(c->outbuf);
#endif
  c->inbuf = c->outbuf = 0;
  if (c->created) { ++ae_n_closed; --ae_n_live; }
  c->closed = 1;
}

static double ae_delay(void * p)
{
  ae_chan_t * c = p;
  VF_ASSERT(c->created && !c->closed, "engine delay: object is live");
  return in_ae_delay;
}

static void ae_sizes(size_t * shared, size_t * channel) { *shared = 32; *channel = sizeof(ae_chan_t); }

static char const * ae_create_k(int kind, void * channel, void * shared, double io_ratio,
    soxr_quality_spec_t * q_spec, soxr_runtime_spec_t * r_spec, double scale)
{
  ae_chan_t * c = channel;
  c->kind = kind; c->shared = shared; c->io_ratio = io_ratio; c->scale = scale;
  c->q = *q_spec; c->r = *r_spec;
  c->id = ae_n_created;
  if (ae_n_created < AE_MAXCH) ae_chans[ae_n_created] = c;
  if (in_ae_create_err == ae_n_created++) { ++ae_n_create_failed; return "ae: create failed"; }
  c->created = 1; ++ae_n_live;
  return 0;
}
#define AE_CREATE(name, kind) static char const * name(void * ch, void * sh, double r, \
    soxr_quality_spec_t * q, soxr_runtime_spec_t * rs, double sc) { return ae_create_k(kind, ch, sh, r, q, rs, sc); }
AE_CREATE(ae_create32, 0) AE_CREATE(ae_create32s, 2) AE_CREATE(ae_create64, 1) AE_CREATE(ae_create64s, 3)
AE_CREATE(ae_createvr, 8)

static void ae_set_io_ratio(void * p, double io_ratio, size_t len)
{
  ae_chan_t * c = p;
  VF_ASSERT(c->created && !c->closed, "engine set_io_ratio: object is live");
  c->last_ratio = io_ratio; c->last_slew = len; ++c->setratio_calls;
}

static char const * ae_id32(void) {return "cr32";}
static char const * ae_id32s(void) {return "cr32s";}
static char const * ae_id64(void) {return "cr64";}
static char const * ae_id64s(void) {return "cr64s";}
static char const * ae_idvr(void) {return "vr32";}

#define AE_CB(create, setr, id) { (fn_t)ae_input, (fn_t)ae_process, (fn_t)ae_output, (fn_t)ae_flush, \
  (fn_t)ae_close, (fn_t)ae_delay, (fn_t)ae_sizes, (fn_t)create, (fn_t)setr, (fn_t)id }
control_block_t _soxr_rate32_cb  = AE_CB(ae_create32 , 0, ae_id32 );
control_block_t _soxr_rate32s_cb = AE_CB(ae_create32s, 0, ae_id32s);
control_block_t _soxr_rate64_cb  = AE_CB(ae_create64 , 0, ae_id64 );
control_block_t _soxr_rate64s_cb = AE_CB(ae_create64s, 0, ae_id64s);
control_block_t _soxr_vr32_cb    = AE_CB(ae_createvr , ae_set_io_ratio, ae_idvr);

#define AE_NONDET() do { IN_GARR(in_ae_avail); SET_DBL(in_ae_delay); SET_INT(in_ae_create_err); \
    SET_DBL(in_inv_f_resp); VF_ASSUME(in_inv_f_resp > 0 && in_inv_f_resp < 1); } while (0)

/* ---- environment stubs (CBMC build; the native replay uses libc) ---- */
double in_inv_f_resp;   /* value of lsx_inv_f_resp(), any number in (0,1) */
double _soxr_inv_f_resp(double drop, double a) { (void)drop; (void)a; return in_inv_f_resp; }
#if !defined VF_NATIVE
#ifndef VF_OWN_GETENV
char * getenv(char const * name) { (void)name; return 0; }   /* no SOXR_* overrides unless a harness models them */
#endif
long in_time;
time_t time(time_t * t) { if (t) *t = (time_t)in_time; return (time_t)in_time; }
#endif
