/* Model of the x87 FIST(P) based conversions of src/rint.h for CBMC (the
 * inline asm has no semantics there).  Pulled in with
 *   -Dsoxr_rint_included -include x87_model.h
 * so that rint-clip.h / data-io.c / soxr-lsr.c stay the real files.
 * Semantics modelled (Intel SDM, FIST/FISTP, default control word = round to
 * nearest even, invalid-operation exception masked):
 *   - operand widened exactly to the x87 register (float/double -> extended);
 *   - rounded to an integer, ties to even;
 *   - if the rounded value does not fit the destination, or the operand is
 *     NaN/inf: the "integer indefinite" (0x80000000 / 0x8000) is stored and
 *     the sticky IE flag of the status word is set;
 *   - fnstsw reads the flag, fnstenv/fldenv clears it.
 * The native replay build does NOT use this file: it runs the real asm.
 * bin/validate_x87 compares model and asm natively. */
#ifndef VF_X87_MODEL_H
#define VF_X87_MODEL_H
#if !defined VF_NATIVE
#include "std-types.h"
#include <math.h>
#define FPU_RINT32
#define FPU_RINT16
#define FE_INVALID 1
extern int vf_x87_ie;
#ifdef VF_X87_ABSTRACT
/* over-approximation for harnesses whose subject is not the arithmetic (API layer): any result, any flag */
int nondet_int(void); short nondet_short(void);
static __inline int32_t vf_fist32(double x) { (void)x; if (nondet_int()) vf_x87_ie = 1; return (int32_t)nondet_int(); }
static __inline int16_t vf_fist16(double x) { (void)x; if (nondet_int()) vf_x87_ie = 1; return (int16_t)nondet_short(); }
#else
static __inline int32_t vf_fist32(double x) {
  double r = nearbyint(x);                  /* CBMC: exact, ties-to-even */
  if (!(r >= -2147483648.0 && r <= 2147483647.0)) { vf_x87_ie = 1; return (int32_t)(-2147483647 - 1); }
  return (int32_t)r;
}
static __inline int16_t vf_fist16(double x) {
  double r = nearbyint(x);
  if (!(r >= -32768.0 && r <= 32767.0)) { vf_x87_ie = 1; return (int16_t)(-32768); }
  return (int16_t)r;
}
#endif
#define rint32D(a,b) ((a) = vf_fist32((double)(b)))
#define rint16D(a,b) ((a) = vf_fist16((double)(b)))
#define rint32F rint32D
#define rint16F rint16D
static __inline int fe_test_invalid(void) { return vf_x87_ie & FE_INVALID; }
static __inline int fe_clear_invalid(void) { vf_x87_ie = 0; return 0; }
static __inline int32_t rint32(double input) { int32_t result; rint32D(result, input); return result; }
static __inline int16_t rint16(double input) { int16_t result; rint16D(result, input); return result; }
#endif
/* data-io.c's memcpy fast paths: cbmc's built-in memcpy with a symbolic length goes through the array theory
 * (> 7 GB here).  Every such memcpy copies whole 4- or 8-byte samples, so a word loop is an exact model; the
 * bounds of each access are checked.  Harness TUs #undef memcpy again (struct / function-pointer copies must stay
 * the built-in). */
#if !defined VF_NATIVE && defined VF_DATAIO_MEMCPY
#include <string.h>
void * vf_word_memcpy(void * d, void const * s, size_t n);
#define memcpy vf_word_memcpy
#endif
#endif
