/* Model of the OpenMP lock API for cbmc's concurrency mode (sequential consistency): a lock is an int, set blocks
 * (assume) until it is free, atomically.  Ghost checks: initialised exactly once before use, unset only when held. */
#ifndef VF_OMP_MODEL_H
#define VF_OMP_MODEL_H
typedef struct { int held, inited, destroyed; } omp_lock_t;
void omp_init_lock(omp_lock_t * l);
void omp_set_lock(omp_lock_t * l);
void omp_unset_lock(omp_lock_t * l);
void omp_destroy_lock(omp_lock_t * l);
#endif
