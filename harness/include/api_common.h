/* shared pieces of the L1 (API over abstract engine) harnesses */
#ifndef VF_CAP
#define VF_CAP 3
#endif
#ifndef VF_MAXCH
#define VF_MAXCH 2
#endif
#ifndef VF_ITYPE
#define VF_ITYPE 0
#endif
#ifndef VF_OTYPE
#define VF_OTYPE 0
#endif
#ifndef VF_RECIPE            /* SOXR_HQ: 32-bit engines; SOXR_VHQ: 64-bit engines */
#define VF_RECIPE SOXR_HQ
#endif
#ifndef VF_QFLAGS
#define VF_QFLAGS 0
#endif
#ifndef VF_FNCALLS
#define VF_FNCALLS 4
#endif

static unsigned g_ch;
static soxr_datatype_t g_itype = (soxr_datatype_t)VF_ITYPE, g_otype = (soxr_datatype_t)VF_OTYPE;

/* Caller buffer for len frames of ch channels in layout/type t.
 * cbmc handles objects of symbolic size, pointers at symbolic offsets and memcpy of symbolic length through its
 * array theory, which needed > 20 GB here (measured).  So every allocation has a CONSTANT size (VF_CAP frames) and
 * the contract size is enforced by data instead of by the allocator:
 *   - the bytes after the contract size hold a canary that is checked after the call (any over-WRITE inside the
 *     allocation is caught; beyond the allocation cbmc's pointer check / ASan catches it);
 *   - input frames carry ghost sequence numbers which the abstract engine checks (an over-READ that reaches the
 *     engine is caught there), and the harness asserts frames-taken == idone <= ilen. */
#define VF_MAXBYTES (VF_CAP * 8)
#define VF_NBUF (2 * (VF_MAXCH + 1))
static unsigned char * vf_cbuf[VF_NBUF]; static size_t vf_cbuf_used[VF_NBUF], vf_cbuf_size[VF_NBUF]; static unsigned vf_ncbuf;
static void * fixed_alloc(size_t fixed, size_t bytes)
{
  unsigned char * base = malloc(fixed); size_t i;
  VF_ASSUME(base != 0);
  VF_ASSERT(bytes <= fixed, "harness: buffer fits its fixed allocation");
  for (i = 0; i < fixed; ++i) if (i >= bytes) base[i] = 0xA5;
  if (vf_ncbuf < VF_NBUF) { vf_cbuf[vf_ncbuf] = base; vf_cbuf_size[vf_ncbuf] = fixed; vf_cbuf_used[vf_ncbuf++] = bytes; }
  return base;
}
static void check_canaries(void)
{
  unsigned k; size_t i;
  for (k = 0; k < vf_ncbuf; ++k) for (i = 0; i < VF_MAXBYTES * VF_MAXCH; ++i)
    if (i >= vf_cbuf_used[k] && i < vf_cbuf_size[k])
      VF_ASSERT(vf_cbuf[k][i] == 0xA5, "no write past the contract size of a caller buffer");
}
static void * make_buf(soxr_datatype_t t, unsigned ch, size_t len)
{
  size_t sz = soxr_datatype_size(t);
  unsigned c;
  if (t & SOXR_SPLIT) {
    void * * v = malloc(ch * sizeof(void *));
    VF_ASSUME(v != 0);
    for (c = 0; c < ch; ++c) v[c] = fixed_alloc(VF_MAXBYTES, len * sz);
    return v;
  }
  return fixed_alloc(VF_MAXBYTES * ch, len * ch * sz);
}

static void put_sample(soxr_datatype_t t, void * buf, unsigned ch, size_t j, unsigned c, double v)
{
  size_t idx = (t & SOXR_SPLIT)? j : j * ch + c;
  void * b = (t & SOXR_SPLIT)? ((void * *)buf)[c] : buf;
  switch (t & 3) {
    case SOXR_FLOAT32: ((float *)b)[idx] = (float)v; break;
    case SOXR_FLOAT64: ((double *)b)[idx] = v; break;
    case SOXR_INT32: ((int32_t *)b)[idx] = (int32_t)v; break;
    default: ((int16_t *)b)[idx] = (int16_t)v; break;
  }
}

static double get_sample(soxr_datatype_t t, void const * buf, unsigned ch, size_t j, unsigned c)
{
  size_t idx = (t & SOXR_SPLIT)? j : j * ch + c;
  void const * b = (t & SOXR_SPLIT)? ((void * const *)buf)[c] : buf;
  switch (t & 3) {
    case SOXR_FLOAT32: return ((float const *)b)[idx];
    case SOXR_FLOAT64: return ((double const *)b)[idx];
    case SOXR_INT32: return ((int32_t const *)b)[idx];
    default: return ((int16_t const *)b)[idx];
  }
}

/* fill frames [0,len) with the ghost sequence numbers 8*(base+j)+c */
static void fill_seq(soxr_datatype_t t, void * buf, unsigned ch, size_t len, size_t base)
{
  size_t j; unsigned c;
  for (j = 0; j < len; ++j) for (c = 0; c < ch; ++c)
    put_sample(t, buf, ch, j, c, (double)(8 * (base + j) + c));
}

/* ---- input function: any supply 1..requested, end of input, or failure; everything recorded ---- */
unsigned in_fn_ret[VF_FNCALLS];
unsigned in_fn_kind[VF_FNCALLS];          /* 0 data, 1 failure, 2 end of input */
static unsigned fn_calls, fn_calls_after_end, fn_calls_after_fail, fn_ended, fn_failed;
static size_t fn_max_ilen, fn_supplied, fn_max_request;
static int fn_seq;                        /* fill supplied data with ghost sequence numbers */
static size_t fn_seq_base(void);   /* frames the engine has been given so far (pushed + pulled) */
static size_t vf_input_fn(void * state, soxr_in_t * data, size_t requested)
{
  unsigned k = fn_calls++;
  size_t n;
  (void)state;
  if (fn_ended) ++fn_calls_after_end;
  if (fn_failed) ++fn_calls_after_fail;
  if (requested > fn_max_request) fn_max_request = requested;
  VF_ASSERT(requested >= 1, "the input function is never asked for 0 frames: its 0 reply would be taken for end-of-input (C05/C18)");
  if (k >= VF_FNCALLS || in_fn_kind[k] == 1) {      /* failure: *data == NULL - canonically with length 0 (soxr.h table), but a stale / requested
                                                     * length next to the NULL pointer is failure too (soxr.c: "if (!in)"): any length <= requested */
    n = k < VF_FNCALLS? in_fn_ret[k] : 0;
    VF_ASSUME(n <= requested);
    fn_failed = 1; *data = 0; return n;
  }
  if (in_fn_kind[k] == 2) { fn_ended = 1; return 0; }      /* data left as set by the library (non-null) */
  n = in_fn_ret[k];
  VF_ASSUME(n >= 1 && n <= requested && n <= VF_CAP);
  *data = make_buf(g_itype, g_ch, n);
  if (fn_seq) fill_seq(g_itype, (void *)*data, g_ch, n, fn_seq_base());
  fn_supplied += n;
  return n;
}

/* ---- a resampler object in a directly constructed state (no soxr_create): what the real soxr_create +
 * initialise leave behind for this configuration, built from static storage so that cbmc sees constants.
 * (soxr_create / initialise / soxr_delete themselves are the subject of the create_* harnesses.) ---- */
#ifndef VF_CH
#define VF_CH 2
#endif
#ifndef VF_KIND              /* engine: 0 cr32, 2 cr32s, 1 cr64, 3 cr64s, 8 vr32 */
#define VF_KIND 2
#endif
static struct soxr vf_S;
static ae_chan_t vf_objs[VF_CH + 1];
static void * vf_resamplers[VF_CH + 1];
static void * vf_channel_ptrs[VF_CH + 1];
static char vf_shared[32];

static soxr_t vf_make_soxr(double io_ratio, unsigned num_threads, unsigned long ioflags)
{
  unsigned i;
  fn_t const * cb = VF_KIND == 0? _soxr_rate32_cb : VF_KIND == 2? _soxr_rate32s_cb :
      VF_KIND == 1? _soxr_rate64_cb : VF_KIND == 3? _soxr_rate64s_cb : _soxr_vr32_cb;
  soxr_t p = &vf_S;
  p->num_channels = VF_CH;
  p->io_ratio = io_ratio;
  p->q_spec.precision = (VF_KIND & 1)? 28 : 20;
  p->q_spec.phase_response = 50; p->q_spec.passband_end = .913; p->q_spec.stopband_begin = 1;
  p->q_spec.flags = VF_KIND == 8? SOXR_VR : 0;
  p->io_spec.itype = g_itype; p->io_spec.otype = g_otype; p->io_spec.scale = 1; p->io_spec.flags = ioflags;
  p->runtime_spec = soxr_runtime_spec(num_threads);
  p->shared = vf_shared;
  p->resamplers = vf_resamplers;
  p->channel_ptrs = vf_channel_ptrs;
  memcpy(p->control_block, cb, sizeof(p->control_block));
  if ((VF_KIND & 1) && VF_KIND != 8) {
    p->deinterleave = (deinterleave_t)_soxr_deinterleave; p->interleave = (interleave_t)_soxr_interleave;
  } else {
    p->deinterleave = (deinterleave_t)_soxr_deinterleave_f; p->interleave = (interleave_t)_soxr_interleave_f;
  }
  for (i = 0; i < VF_CH; ++i) {
    vf_resamplers[i] = &vf_objs[i];
    vf_objs[i].kind = VF_KIND; vf_objs[i].created = 1; vf_objs[i].id = (int)i; vf_objs[i].io_ratio = io_ratio;
    ae_chans[i] = &vf_objs[i];
  }
  ae_n_created = ae_n_live = VF_CH;
  return p;
}
