/* Common harness header: one source, two builds.
 *  - CBMC build (default): inputs are nondeterministic, assume/assert are the
 *    __CPROVER primitives.
 *  - native replay build (-DVF_NATIVE): inputs are read, by name, from the
 *    replay file named by $VF_REPLAY (written from cbmc's counterexample);
 *    a violated assumption exits 77 (replay does not follow the harness),
 *    a violated assertion prints and exits 1, sanitizers abort.
 * Real build uses -DNDEBUG, so harness assertions never use assert(). */
#ifndef VF_H
#define VF_H
#include <stddef.h>
#include <stdint.h>

#ifdef VF_NATIVE
#include <stdio.h>
#include <stdlib.h>
#include <string.h>
static struct {char name[64]; unsigned long long bits;} vf_tab[4096];
static int vf_ntab = -1;
static void vf_load(void) {
  char const * fn = getenv("VF_REPLAY"); FILE * f;
  vf_ntab = 0;
  if (!fn || !(f = fopen(fn, "r"))) return;
  { char line[512];
    while (vf_ntab < 4096 && fgets(line, sizeof(line), f))
      if (line[0] != '#' && sscanf(line, "%63s %llx", vf_tab[vf_ntab].name, &vf_tab[vf_ntab].bits) == 2)     /* '#...' header lines: comments */
        ++vf_ntab;
  }
  fclose(f);
}
static unsigned long long vf_get(char const * name, long idx) {
  char key[80]; int i;
  if (vf_ntab < 0) vf_load();
  if (idx >= 0) sprintf(key, "%s[%ld]", name, idx); else sprintf(key, "%s", name);
  for (i = 0; i < vf_ntab; ++i) if (!strcmp(vf_tab[i].name, key)) return vf_tab[i].bits;
  if (idx > 0) return vf_get(name, 0);      /* array element the counterexample trace did not mention (sliced away): take element 0's value - any value allowed by the assumptions will do */
  return 0;
}
static void vf_bytes(void * d, void const * s, size_t n) { size_t k; for (k = 0; k < n; ++k) ((unsigned char *)d)[k] = ((unsigned char const *)s)[k]; }      /* not memcpy: some harnesses displace it */
static double vf_getd(char const * n, long i) {unsigned long long b = vf_get(n, i); double d; vf_bytes(&d, &b, 8); return d;}
static float vf_getf(char const * n, long i) {unsigned b = (unsigned)vf_get(n, i); float d; vf_bytes(&d, &b, 4); return d;}
#define VF_ASSUME(c) do { if (!(c)) { fprintf(stderr, "VF: assumption not met: %s\n", #c); exit(77);} } while (0)
#define VF_ASSERT(c, msg) do { if (!(c)) { fprintf(stderr, "VF-ASSERT-FAILED: %s\n", msg); exit(1);} } while (0)
#define IN_INT(n)   int n = (int)vf_get(#n, -1)
#define IN_UINT(n)  unsigned n = (unsigned)vf_get(#n, -1)
#define IN_LONG(n)  long n = (long)vf_get(#n, -1)
#define IN_ULONG(n) unsigned long n = (unsigned long)vf_get(#n, -1)
#define IN_I64(n)   int64_t n = (int64_t)vf_get(#n, -1)
#define IN_U64(n)   uint64_t n = (uint64_t)vf_get(#n, -1)
#define IN_SIZE(n)  size_t n = (size_t)vf_get(#n, -1)
#define IN_DBL(n)   double n = vf_getd(#n, -1)
#define IN_FLT(n)   float n = vf_getf(#n, -1)
#define IN_ARR(T, n, N)  T n[N]; do { long vf_i; for (vf_i = 0; vf_i < (N); ++vf_i) { \
    unsigned long long vf_b = vf_get(#n, vf_i); vf_bytes(&n[vf_i], &vf_b, sizeof(T)); } } while (0)
#define IN_GARR(n)  do { long vf_i; for (vf_i = 0; vf_i < (long)(sizeof(n)/sizeof(n[0])); ++vf_i) { \
    unsigned long long vf_b = vf_get(#n, vf_i); vf_bytes(&n[vf_i], &vf_b, sizeof(n[0])); } } while (0)
#define SET_INT(n)   n = (int)vf_get(#n, -1)
#define SET_UINT(n)  n = (unsigned)vf_get(#n, -1)
#define SET_LONG(n)  n = (long)vf_get(#n, -1)
#define SET_DBL(n)   n = vf_getd(#n, -1)
#define VF_WITNESS() do { fprintf(stderr, "VF: harness end reached\n"); } while (0)
static void vf_native_body(void);
int main(void) { vf_native_body(); return 0; }      /* gnu89: falling off main would return an unspecified status */
#define VF_MAIN static void vf_native_body(void)
#define __CPROVER_assume(c) VF_ASSUME(c)
#else
int nondet_int(void); unsigned nondet_uint(void); long nondet_long(void);
long long nondet_longlong(void); unsigned long long nondet_ulonglong(void);
unsigned long nondet_ulong(void); double nondet_double(void); float nondet_float(void);
#define VF_ASSUME(c) __CPROVER_assume(c)
#define VF_ASSERT(c, msg) __CPROVER_assert(c, msg)
#define IN_INT(n)   int n = nondet_int()
#define IN_UINT(n)  unsigned n = nondet_uint()
#define IN_LONG(n)  long n = nondet_long()
#define IN_ULONG(n) unsigned long n = nondet_ulong()
#define IN_I64(n)   int64_t n = nondet_longlong()
#define IN_U64(n)   uint64_t n = nondet_ulonglong()
#define IN_SIZE(n)  size_t n = nondet_ulong()
#define IN_DBL(n)   double n = nondet_double()
#define IN_FLT(n)   float n = nondet_float()
#define IN_ARR(T, n, N)  T n[N]; __CPROVER_havoc_object(n)
#define IN_GARR(n)  __CPROVER_havoc_object(n)
#define SET_INT(n)   n = nondet_int()
#define SET_UINT(n)  n = nondet_uint()
#define SET_LONG(n)  n = nondet_long()
#define SET_DBL(n)   n = nondet_double()
/* vacuity guard: must be reported FAILED by every run */
#define VF_WITNESS() __CPROVER_assert(0, "VF_WITNESS harness end reachable")
#define VF_MAIN void vf_harness(void)
#endif

#endif
