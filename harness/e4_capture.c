/* E4 capture driver (native): runs the REAL library (objects compiled from the current /repo/src) for one
 * configuration and prints, as JSON, (1) every filter the real _soxr_init designs - arguments and resulting taps of
 * lsx_design_lpf, and the taps after lsx_fir_to_phase - intercepted with ld --wrap (no source change), and
 * (2) optionally the impulse responses of the WHOLE conversion for M consecutive input positions, from which the
 * high-rate prototype g of a rational L/M conversion is reconstructed (y_m[n] = g[n*M - (i0+m)*L]).
 * The taps are data; the deciding step (for all frequencies in a band) is done by z3 on the exact polynomial. */
#include <stdio.h>
#include <stdlib.h>
#include <string.h>
#include "soxr.h"

double * __real__soxr_design_lpf(double Fp, double Fs, double Fn, double att, int * num_taps, int k, double beta);
void __real__soxr_fir_to_phase(double * * h, int * len, int * post_len, double phase);

static int n_rec, recording = 1;
static void dump_taps(double const * h, int n)
{
  int i;
  printf("[");
  for (i = 0; i < n; ++i) printf("%s\"%a\"", i? "," : "", h[i]);
  printf("]");
}

double * __wrap__soxr_design_lpf(double Fp, double Fs, double Fn, double att, int * num_taps, int k, double beta)
{
  int n_in = *num_taps;
  double * h = __real__soxr_design_lpf(Fp, Fs, Fn, att, num_taps, k, beta);
  if (!recording) return h;
  printf("%s{\"what\":\"design\",\"Fp\":%.17g,\"Fs\":%.17g,\"Fn\":%.17g,\"att\":%.17g,\"k\":%d,\"beta\":%.17g,\"n_in\":%d,\"n\":%d,\"h\":",
      n_rec++? ",\n" : "", Fp, Fs, Fn, att, k, beta, n_in, *num_taps);
  if (h && *num_taps <= 4000) dump_taps(h, *num_taps); else printf("null");
  printf("}");
  return h;
}

void __wrap__soxr_fir_to_phase(double * * h, int * len, int * post_len, double phase)
{
  __real__soxr_fir_to_phase(h, len, post_len, phase);
  if (!recording) return;
  printf("%s{\"what\":\"phase\",\"phase\":%.17g,\"n\":%d,\"post_len\":%d,\"h\":", n_rec++? ",\n" : "", phase, *len, *post_len);
  if (*h && *len <= 4000) dump_taps(*h, *len); else printf("null");
  printf("}");
}

static long gcd(long a, long b) { while (b) { long t = a % b; a = b; b = t; } return a; }

int main(int argc, char * * argv)
{
  /* irate orate recipe qflags precision phase passband stopband rtflags scale e2e i0 */
  double irate = atof(argv[1]), orate = atof(argv[2]);
  unsigned long recipe = strtoul(argv[3], 0, 0), qflags = strtoul(argv[4], 0, 0);
  double precision = atof(argv[5]), phase = atof(argv[6]), passband = atof(argv[7]), stopband = atof(argv[8]);
  unsigned long rtflags = strtoul(argv[9], 0, 0);
  double scale = atof(argv[10]);
  int e2e = atoi(argv[11]); long i0 = atol(argv[12]);
  soxr_quality_spec_t q = soxr_quality_spec(recipe, qflags);
  soxr_io_spec_t io = soxr_io_spec(SOXR_FLOAT64_I, SOXR_FLOAT64_I);
  soxr_runtime_spec_t rt = soxr_runtime_spec(1);
  soxr_error_t err; soxr_t p;
  long L, M, g;
  if (precision >= 0) q.precision = precision;
  if (phase >= 0) q.phase_response = phase;
  if (passband >= 0) q.passband_end = passband;
  if (stopband >= 0) q.stopband_begin = stopband;
  rt.flags = rtflags; io.scale = scale;
  g = gcd((long)irate, (long)orate); M = (long)irate / g; L = (long)orate / g;
  printf("{\"q\":{\"precision\":%.17g,\"phase\":%.17g,\"passband_end\":%.17g,\"stopband_begin\":%.17g,\"flags\":%lu},\"L\":%ld,\"M\":%ld,\"i0\":%ld,\n\"records\":[",
      q.precision, q.phase_response, q.passband_end, q.stopband_begin, q.flags, L, M, i0);
  p = soxr_create(irate, orate, 1, &err, &io, &q, &rt);
  recording = 0;
  printf("],\n\"error\":%s%s%s,\"engine\":\"%s\",\"delay0\":%.17g", err? "\"" : "", err? err : "null", err? "\"" : "", p? soxr_engine(p) : "", p? soxr_delay(p) : 0.);
  if (p && e2e) {
    long m, n_in = 2 * i0 + M, n_out = (long)((double)n_in * (double)L / (double)M) + 16;
    double * in = calloc((size_t)n_in, sizeof(double)), * out = calloc((size_t)n_out, sizeof(double));
    printf(",\n\"n_in\":%ld,\"responses\":[", n_in);
    for (m = 0; m < M; ++m) {
      size_t idone, odone; long j, first = -1, last = -1;
      if (m) soxr_clear(p);
      memset(in, 0, (size_t)n_in * sizeof(double)); in[i0 + m] = 1;
      err = soxr_process(p, in, ~(size_t)n_in, &idone, out, (size_t)n_out, &odone);
      for (j = 0; j < (long)odone; ++j) if (out[j] != 0) { if (first < 0) first = j; last = j; }
      printf("%s{\"m\":%ld,\"odone\":%lu,\"idone\":%lu,\"first\":%ld,\"y\":", m? ",\n" : "", m, (unsigned long)odone, (unsigned long)idone, first);
      if (first >= 0) dump_taps(out + first, (int)(last - first + 1)); else printf("[]");
      printf("}");
    }
    printf("]");
    free(in); free(out);
  }
  printf("}\n");
  if (p) soxr_delete(p);
  return 0;
}
