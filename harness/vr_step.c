/* C16: the variable-rate engine vr32.c (real file, reached by textual inclusion).
 * VF_OP 0  slew set-up: set_step_step / vr_set_io_ratio for every 64-bit step value, target and slew length
 *       1  poly_fir_u: per output frame the read position advances by step and step by step_step, exactly once
 *       2  poly_fir_d: the same per PAIR of 2x-rate samples (one output frame)
 *       3  stage switch inside vr_process: the rescaling of at / step / step_step keeps the ratio trajectory */
#include "vf.h"
#include <string.h>
#include <stdlib.h>
#include <math.h>
#include "vr32.c"

#ifndef VF_OP
#define VF_OP 0
#endif
#ifndef VF_PART
#define VF_PART 0
#endif
#ifndef VF_SLEWBITS
#define VF_SLEWBITS 31
#endif
#ifndef VF_DIFBITS
#define VF_DIFBITS 44
#endif

VF_MAIN
{
#if VF_OP == 0
  IN_I64(in_step); IN_I64(in_target); IN_UINT(in_slew);
  stream_t s; int64_t dif, tot; bool moving;
  memset(&s, 0, sizeof(s));
  VF_ASSUME(in_step > 0 && in_step < ((int64_t)1 << 44) && in_target > 0 && in_target < ((int64_t)1 << 44));
#ifdef VF_SLEW      /* slew length constant per obligation: division / multiplication by a constant (symbolic lengths gave no verdict on any back end) */
  in_slew = VF_SLEW;
#endif
  VF_ASSUME(in_slew >= 1 && in_slew < (1u << VF_SLEWBITS));
  VF_ASSUME(in_target - in_step < ((int64_t)1 << VF_DIFBITS) && in_step - in_target < ((int64_t)1 << VF_DIFBITS));
  s.step.all = in_step; s.step_mult = 1.;          /* io_ratio * step_mult: with step_mult == 1 the target step is the integer handed in */
  moving = set_step_step(&s, (double)in_target, (int)in_slew);
  dif = in_target - in_step;
  VF_ASSERT(s.step.all == in_step, "setting up a slew does not jump the current step (C16)");
  if (dif > 0) VF_ASSERT(s.step_step.all >= 0, "slew moves towards the target (C16)");
  if (dif < 0) VF_ASSERT(s.step_step.all <= 0, "slew moves towards the target (C16)");
  if (dif == 0) VF_ASSERT(s.step_step.all == 0, "no slew when already at the target");
#if VF_PART != 2
  tot = s.step_step.all * (int64_t)in_slew;         /* total movement over slew_len output frames */
  VF_ASSERT(tot - dif <= (int64_t)(in_slew >> 1) + 1 && dif - tot <= (int64_t)(in_slew >> 1) + 1,
      "after slew_len frames the step is within half a 2^-32 unit per frame of the target: the final snap is below one LSB per frame (C16)");
  if (dif >= 0) VF_ASSERT(tot <= dif + (int64_t)(in_slew >> 1), "no overshoot beyond the rounding of the per-frame increment (C16)");
  VF_ASSERT(moving == (s.step_step.all != 0), "set_step_step reports whether anything moves");
#endif
#if VF_PART != 1
  { /* the int fast path agrees with the 64-bit division */
    int64_t d2 = dif < 0? dif - (in_slew >> 1) : dif + (in_slew >> 1);
    VF_ASSERT(s.step_step.all == d2 / (int64_t)in_slew, "int and int64 division paths agree (C16)");
  }
#endif
  (void)tot; (void)moving;
#elif VF_OP == 1 || VF_OP == 2
  IN_I64(in_at); IN_I64(in_step); IN_I64(in_ss); IN_UINT(in_len); IN_UINT(in_olen);
  static float inbuf[64], outbuf[16];
  stream_t s; int o, k; int64_t at = in_at, st = in_step;
  memset(&s, 0, sizeof(s));
  VF_ASSUME(in_at >= 0 && in_at < ((int64_t)4 << 32) && in_step > 0 && in_step < ((int64_t)4 << 32));
  VF_ASSUME(in_ss > -((int64_t)1 << 24) && in_ss < ((int64_t)1 << 24) && in_step + 8 * in_ss > 0);
  VF_ASSUME(in_len <= 8 && in_olen <= 3);
  s.at.all = in_at; s.step.all = in_step; s.step_step.all = in_ss; s.len = (int)in_len;
  s.input = inbuf + 24;                   /* context: LEN/2-1 samples before, LEN/2 + len + step after */
#if VF_OP == 1
  o = poly_fir_u(&s, outbuf, (int)in_olen);
  VF_ASSERT(o >= 0 && o <= (int)in_olen, "poly_fir_u: 0 <= frames <= requested");
  for (k = 0; k < 3; ++k) if (k < o) { at += st; st += in_ss; }
  VF_ASSERT(s.at.all == at && s.step.all == st, "per output frame: position += step, then step += step_step, exactly once (C16)");
  if (o < (int)in_olen) VF_ASSERT(INT(s.at) >= (int)in_len, "stops only when the input is exhausted (C16/C08)");
#else
  o = poly_fir_d(&s, outbuf, (int)in_olen * 2);
  VF_ASSERT(o >= 0 && o <= (int)in_olen * 2, "poly_fir_d: 0 <= samples <= requested");
  for (k = 0; k < 3; ++k) if (2 * k + 1 < o) { at += st; at += st; st += in_ss; }
  if (!(o & 1)) VF_ASSERT(s.at.all == at && s.step.all == st, "per output frame (pair of 2x samples): position += 2*step, step += step_step once (C16)");
  if (o & 1) VF_ASSERT(s.at.all == at && s.step.all == st, "an incomplete pair is rolled back: position and step unchanged by it (C16)");
#endif
  VF_ASSERT(s.step_step.all == in_ss, "the slew increment is constant within a call");
#elif VF_OP == 4
  /* vr_set_io_ratio with a slew while a stage cross-fade is running: BOTH streams (fade-in: current, fade-out: fadeout) must
   * slew to the same ratio over the same number of frames - each in its own fixed-point scale (step_mult differs by a power of two) */
  IN_I64(in_cstep); IN_I64(in_fstep); IN_I64(in_target); IN_UINT(in_fade); IN_UINT(in_cur_fine);
  static rate_t R; int64_t tc, tf, mc, mf;
  VF_ASSUME(in_target > 0 && in_target < ((int64_t)1 << 40) && in_cstep > 0 && in_cstep < ((int64_t)1 << 41) && in_fstep > 0 && in_fstep < ((int64_t)1 << 41));
  VF_ASSUME(in_fade >= 1 && in_fade < 1024);
  mc = (in_cur_fine & 1)? 2 : 1; mf = 3 - mc;             /* the two streams read neighbouring octave stages: scales 1 and 2 */
  VF_ASSUME(in_target * mc - in_cstep < ((int64_t)1 << VF_DIFBITS) && in_cstep - in_target * mc < ((int64_t)1 << VF_DIFBITS));
  VF_ASSUME(in_target * mf - in_fstep < ((int64_t)1 << VF_DIFBITS) && in_fstep - in_target * mf < ((int64_t)1 << VF_DIFBITS));
  R.current.step_mult = (double)mc; R.fadeout.step_mult = (double)mf;
  R.current.step.all = in_cstep; R.fadeout.step.all = in_fstep; R.fade_len = (int)in_fade;
  vr_set_io_ratio(&R, (double)in_target, (size_t)VF_SLEW);
  tc = in_target * mc; tf = in_target * mf;
  if (R.slew_len) {
    int64_t ec = in_cstep + R.current.step_step.all * (int64_t)VF_SLEW - tc, ef = in_fstep + R.fadeout.step_step.all * (int64_t)VF_SLEW - tf;
    VF_ASSERT(R.slew_len == (int)VF_SLEW && R.new_io_ratio == (double)in_target, "the slew is recorded with its length and target (C16)");
    VF_ASSERT(ec <= (int64_t)(VF_SLEW / 2) + 1 && -ec <= (int64_t)(VF_SLEW / 2) + 1, "fade-in stream reaches the target ratio after slew_len frames (C16)");
    VF_ASSERT(ef <= (int64_t)(VF_SLEW / 2) + 1 && -ef <= (int64_t)(VF_SLEW / 2) + 1, "fade-out stream reaches the SAME target ratio after slew_len frames, in its own scale (C16: no discontinuity across a cross-fade)");
  } else
    VF_ASSERT(R.current.step_step.all == 0 && R.fadeout.step_step.all == 0 && R.new_io_ratio == 0, "a slew that moves nothing is dropped for both streams");
  VF_ASSERT(R.current.step.all == in_cstep && R.fadeout.step.all == in_fstep, "setting up a slew does not jump either stream (C16)");
#elif VF_OP == 3
  /* stage switch between stage 0 (decimating path, 2x rate) and stage -1 (interpolating path): a resampler built by the real
   * vr_init, brought to the state "slew in progress, step about to cross the octave boundary" (step / step_step / position
   * symbolic, sample data zero), one real vr_process call.  After the switch the fade-in stream (new stage) and the fade-out
   * stream (old stage) must describe the SAME ratio trajectory: step and step_step, each divided by its stream's step_mult,
   * agree (up to the bit shifted out by the rescaling). */
  IN_I64(in_step); IN_I64(in_ss); IN_I64(in_at); IN_UINT(in_slew);
  static rate_t R; int odone; double mc, mf;
  fade_coefs[0] = 1;                      /* tables already initialised: vr_init's table preparation (61k float operations) is not this obligation's subject */
  vr_init(&R, 1.5, 1, 1.);
  R.default_io_ratio = 0;                 /* ratio already set: */
  R.current.stage_num = 0; enter_new_stage(&R, 0);
  /* about to leave stage 0 downwards: integer part 0, fraction below one half (vr_process: stage_dif = -1) */
#ifdef VF_STEP      /* position and step concrete (a symbolic read position turns every coefficient fetch into a symbolic index into the
                     * 40960-entry tables: no verdict in 900 s); the slew increment and the slew length stay symbolic */
  in_step = VF_STEP; in_at = VF_AT;
#endif
  VF_ASSUME(in_step > ((int64_t)1 << 28) && in_step < ((int64_t)1 << 31) && in_ss > -((int64_t)1 << 20) && in_ss < ((int64_t)1 << 20) && in_ss != 0);
  VF_ASSUME(in_at >= 0 && in_at < ((int64_t)1 << 32) && in_slew >= 8 && in_slew < 1000);
  R.current.step.all = in_step; R.current.step_step.all = in_ss; R.current.at.all = in_at;
  R.slew_len = (int)in_slew; R.new_io_ratio = .9;
  { static float const zeros[8]; (void)vr_input(&R, zeros, 8); }      /* a few (zero) input samples beyond the pre-load */
  odone = vr_process(&R, 1);
  VF_ASSERT(odone >= 0 && odone <= 1, "vr_process: 0 <= frames <= requested (C07)");
  VF_ASSERT(R.fade_len > 0 && R.current.stage_num == -1 && R.fadeout.stage_num == 0, "the octave crossing starts a cross-fade from stage 0 to stage -1 (C16)");
  mc = R.current.step_mult; mf = R.fadeout.step_mult;
  VF_ASSERT(mc == 2 * mf || mc == mf || 2 * mc == mf, "the two streams' fixed-point scales differ by a power of two");
  { /* compare in the finer of the two scales */
    int64_t sc = R.current.step.all, sf = R.fadeout.step.all, ssc = R.current.step_step.all, ssf = R.fadeout.step_step.all, d, dd;
    if (mc > mf) { sf *= (int64_t)(mc / mf); ssf *= (int64_t)(mc / mf); } else { sc *= (int64_t)(mf / mc); ssc *= (int64_t)(mf / mc); }
    d = sc - sf; dd = ssc - ssf;
    VF_ASSERT(d >= -8 && d <= 8, "after a stage switch both streams run at the same instantaneous ratio (C16)");
    VF_ASSERT(dd >= -2 && dd <= 2, "after a stage switch both streams slew at the same rate: the ratio keeps moving monotonically towards the target at the set speed (C16)");
  }
#endif
  VF_WITNESS();
}
