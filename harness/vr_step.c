/* C16: the variable-rate engine vr32.c (real file, reached by textual inclusion).
 * VF_OP 0  slew set-up: set_step_step / vr_set_io_ratio for every 64-bit step value, target and slew length
 *       1  poly_fir_u: per output frame the read position advances by step and step by step_step, exactly once
 *       2  poly_fir_d: the same per PAIR of 2x-rate samples (one output frame)
 *       3  stage switch inside vr_process: the rescaling of at / step / step_step keeps the ratio trajectory */
#include "vf.h"
#include <string.h>
#include <stdlib.h>
#include <math.h>
int _soxr_trace_level; void _soxr_trace(char const * fmt, ...) { (void)fmt; }
#include "vr32.c"

/* data-only replacement for the two per-sample kernels poly_fir1_d / poly_fir1_u (coefficient fetch at a position-dependent table
 * index + dot product): substituted at goto-program level (goto-instrument --replace-calls) in the stage-switch obligation, where
 * only the position / step bookkeeping around them is the subject */
float vf_poly_fir1_data_only(float const * input, uint32_t frac) { (void)input; (void)frac; return 0; }
float vf_fir_data_only(float const * input) { (void)input; return 0; }
/* "no frame produced in this call" behaviour of the four resampling kernels (legal: what they do when the stream's input is exhausted,
 * INT(at) >= len): substituted in the stage-switch obligation so that the state asserted afterwards is the state the switch block left */
int vf_kernel_none(stream_t * s, float * output, int olen) { (void)s; (void)output; (void)olen; return 0; }
int vf_fade_kernel_none(stream_t * s, float const * vol, int step, float * output, int olen) { (void)s; (void)vol; (void)step; (void)output; (void)olen; return 0; }

/* ---- DC-gain semantics of the coefficient tables (VF_OP 5): the table preparation records the gain it bakes into a table, a
 * per-sample kernel returns "unit DC input x table" = that gain, the half-band IIR pair sums its two inputs (DC gain of each path 1).
 * Substituted at goto level for prepare_coefs / poly_fir1_u / poly_fir1_d / half_iir1. ---- */
static float vf_gain_u, vf_gain_d; static int vf_prepared;
void vf_prepare_coefs_gain(float * coefs, int n, int phases0, int phases, float const * coefs0, double multiplier)
{ (void)n; (void)phases0; (void)phases; (void)coefs0; ++vf_prepared; if (coefs == poly_fir_coefs_u) vf_gain_u = (float)multiplier; else vf_gain_d = (float)multiplier; }
float vf_poly_fir1_u_dc(float const * input, uint32_t frac) { (void)input; (void)frac; return vf_gain_u; }
float vf_poly_fir1_d_dc(float const * input, uint32_t frac) { (void)input; (void)frac; return vf_gain_d; }
float vf_half_iir1_dc(half_iir_t * p, float in0, float in1) { (void)p; return in0 + in1; }
#if !defined VF_NATIVE && VF_OP == 5
double cos(double x) { return x == 0? 1. : .5; }      /* only fills fade_coefs (cross-fade weights: data, not used by this obligation); cos(0) == 1 marks the tables as initialised */
#endif

#ifndef VF_OP
#define VF_OP 0
#endif
#ifndef VF_PART
#define VF_PART 0
#endif
#ifndef VF_SLEWBITS
#define VF_SLEWBITS 31
#endif
#ifndef VF_DIFBITS
#define VF_DIFBITS 44
#endif

VF_MAIN
{
#if VF_OP == 0
  IN_I64(in_step); IN_I64(in_target); IN_UINT(in_slew);
  stream_t s; int64_t dif, tot; bool moving;
  memset(&s, 0, sizeof(s));
  VF_ASSUME(in_step > 0 && in_step < ((int64_t)1 << 44) && in_target > 0 && in_target < ((int64_t)1 << 44));
#ifdef VF_SLEW      /* slew length constant per obligation: division / multiplication by a constant (symbolic lengths gave no verdict on any back end) */
  in_slew = VF_SLEW;
#endif
  VF_ASSUME(in_slew >= 1 && in_slew < (1u << VF_SLEWBITS));
  VF_ASSUME(in_target - in_step < ((int64_t)1 << VF_DIFBITS) && in_step - in_target < ((int64_t)1 << VF_DIFBITS));
  s.step.all = in_step; s.step_mult = 1.;          /* io_ratio * step_mult: with step_mult == 1 the target step is the integer handed in */
  moving = set_step_step(&s, (double)in_target, (int)in_slew);
  dif = in_target - in_step;
  VF_ASSERT(s.step.all == in_step, "setting up a slew does not jump the current step (C16)");
  if (dif > 0) VF_ASSERT(s.step_step.all >= 0, "slew moves towards the target (C16)");
  if (dif < 0) VF_ASSERT(s.step_step.all <= 0, "slew moves towards the target (C16)");
  if (dif == 0) VF_ASSERT(s.step_step.all == 0, "no slew when already at the target");
#if VF_PART != 2
  tot = s.step_step.all * (int64_t)in_slew;         /* total movement over slew_len output frames */
  VF_ASSERT(tot - dif <= (int64_t)(in_slew >> 1) + 1 && dif - tot <= (int64_t)(in_slew >> 1) + 1,
      "after slew_len frames the step is within half a 2^-32 unit per frame of the target: the final snap is below one LSB per frame (C16)");
  if (dif >= 0) VF_ASSERT(tot <= dif + (int64_t)(in_slew >> 1), "no overshoot beyond the rounding of the per-frame increment (C16)");
  VF_ASSERT(moving == (s.step_step.all != 0), "set_step_step reports whether anything moves");
#endif
#if VF_PART != 1
  { /* the int fast path agrees with the 64-bit division */
    int64_t d2 = dif < 0? dif - (in_slew >> 1) : dif + (in_slew >> 1);
    VF_ASSERT(s.step_step.all == d2 / (int64_t)in_slew, "int and int64 division paths agree (C16)");
  }
#endif
  (void)tot; (void)moving;
#elif VF_OP == 1 || VF_OP == 2
  IN_I64(in_at); IN_I64(in_step); IN_I64(in_ss); IN_UINT(in_len); IN_UINT(in_olen);
  static float inbuf[64], outbuf[16];
  stream_t s; int o, k; int64_t at = in_at, st = in_step;
  memset(&s, 0, sizeof(s));
  VF_ASSUME(in_at >= 0 && in_at < ((int64_t)4 << 32) && in_step > 0 && in_step < ((int64_t)4 << 32));
  VF_ASSUME(in_ss > -((int64_t)1 << 24) && in_ss < ((int64_t)1 << 24) && in_step + 8 * in_ss > 0);
  VF_ASSUME(in_len <= 8 && in_olen <= 3);
  s.at.all = in_at; s.step.all = in_step; s.step_step.all = in_ss; s.len = (int)in_len;
  s.input = inbuf + 24;                   /* context: LEN/2-1 samples before, LEN/2 + len + step after */
#if VF_OP == 1 && defined VF_FADE      /* cross-fade variant: writes every second slot of the 2x-rate buffer, one frame per iteration */
  { static float vol[32];
  o = poly_fir_fade_u(&s, vol + 16, VF_FADE, outbuf, (int)in_olen * 2);
  VF_ASSERT(o >= 0 && o <= (int)in_olen * 2 && !(o & 1), "poly_fir_fade_u: 0 <= samples <= requested, whole frames");
  for (k = 0; k < 3; ++k) if (2 * k < o) { at += st; st += in_ss; }
  VF_ASSERT(s.at.all == at && s.step.all == st, "cross-fade kernel, per output frame: position += step, then step += step_step, exactly once (C16)");
  if (o < (int)in_olen * 2) VF_ASSERT(INT(s.at) >= (int)in_len, "stops only when the input is exhausted (C16/C08)"); }
#elif VF_OP == 2 && defined VF_FADE
  { static float vol[32];
  o = poly_fir_fade_d(&s, vol + 16, VF_FADE, outbuf, (int)in_olen * 2);
  VF_ASSERT(o >= 0 && o <= (int)in_olen * 2 && !(o & 1), "poly_fir_fade_d: 0 <= samples <= requested, whole frames (an incomplete pair is rolled back)");
  for (k = 0; k < 3; ++k) if (2 * k + 1 < o) { at += st; at += st; st += in_ss; }
  VF_ASSERT(s.at.all == at && s.step.all == st, "cross-fade kernel, per output frame (pair of 2x samples): position += 2*step, step += step_step once (C16)"); }
#elif VF_OP == 1
  o = poly_fir_u(&s, outbuf, (int)in_olen);
  VF_ASSERT(o >= 0 && o <= (int)in_olen, "poly_fir_u: 0 <= frames <= requested");
  for (k = 0; k < 3; ++k) if (k < o) { at += st; st += in_ss; }
  VF_ASSERT(s.at.all == at && s.step.all == st, "per output frame: position += step, then step += step_step, exactly once (C16)");
  if (o < (int)in_olen) VF_ASSERT(INT(s.at) >= (int)in_len, "stops only when the input is exhausted (C16/C08)");
#else
  o = poly_fir_d(&s, outbuf, (int)in_olen * 2);
  VF_ASSERT(o >= 0 && o <= (int)in_olen * 2, "poly_fir_d: 0 <= samples <= requested");
  for (k = 0; k < 3; ++k) if (2 * k + 1 < o) { at += st; at += st; st += in_ss; }
  if (!(o & 1)) VF_ASSERT(s.at.all == at && s.step.all == st, "per output frame (pair of 2x samples): position += 2*step, step += step_step once (C16)");
  if (o & 1) VF_ASSERT(s.at.all == at && s.step.all == st, "an incomplete pair is rolled back: position and step unchanged by it (C16)");
#endif
  VF_ASSERT(s.step_step.all == in_ss, "the slew increment is constant within a call");
#elif VF_OP == 4
  /* vr_set_io_ratio with a slew while a stage cross-fade is running: BOTH streams (fade-in: current, fade-out: fadeout) must
   * slew to the same ratio over the same number of frames - each in its own fixed-point scale (step_mult differs by a power of two) */
  IN_I64(in_cstep); IN_I64(in_fstep); IN_I64(in_target); IN_UINT(in_fade); IN_UINT(in_cur_fine);
  static rate_t R; int64_t tc, tf, mc, mf;
  VF_ASSUME(in_target > 0 && in_target < ((int64_t)1 << 40) && in_cstep > 0 && in_cstep < ((int64_t)1 << 41) && in_fstep > 0 && in_fstep < ((int64_t)1 << 41));
  VF_ASSUME(in_fade >= 1 && in_fade < 1024);
  mc = (in_cur_fine & 1)? 2 : 1; mf = 3 - mc;             /* the two streams read neighbouring octave stages: scales 1 and 2 */
  VF_ASSUME(in_target * mc - in_cstep < ((int64_t)1 << VF_DIFBITS) && in_cstep - in_target * mc < ((int64_t)1 << VF_DIFBITS));
  VF_ASSUME(in_target * mf - in_fstep < ((int64_t)1 << VF_DIFBITS) && in_fstep - in_target * mf < ((int64_t)1 << VF_DIFBITS));
  R.current.step_mult = (double)mc; R.fadeout.step_mult = (double)mf;
  R.current.step.all = in_cstep; R.fadeout.step.all = in_fstep; R.fade_len = (int)in_fade;
  vr_set_io_ratio(&R, (double)in_target, (size_t)VF_SLEW);
  tc = in_target * mc; tf = in_target * mf;
  if (R.slew_len) {
    int64_t ec = in_cstep + R.current.step_step.all * (int64_t)VF_SLEW - tc, ef = in_fstep + R.fadeout.step_step.all * (int64_t)VF_SLEW - tf;
    VF_ASSERT(R.slew_len == (int)VF_SLEW && R.new_io_ratio == (double)in_target, "the slew is recorded with its length and target (C16)");
    VF_ASSERT(ec <= (int64_t)(VF_SLEW / 2) + 1 && -ec <= (int64_t)(VF_SLEW / 2) + 1, "fade-in stream reaches the target ratio after slew_len frames (C16)");
    VF_ASSERT(ef <= (int64_t)(VF_SLEW / 2) + 1 && -ef <= (int64_t)(VF_SLEW / 2) + 1, "fade-out stream reaches the SAME target ratio after slew_len frames, in its own scale (C16: no discontinuity across a cross-fade)");
  } else
    VF_ASSERT(R.current.step_step.all == 0 && R.fadeout.step_step.all == 0 && R.new_io_ratio == 0, "a slew that moves nothing is dropped for both streams");
  VF_ASSERT(R.current.step.all == in_cstep && R.fadeout.step.all == in_fstep, "setting up a slew does not jump either stream (C16)");
#elif VF_OP == 3
  /* stage switch inside the real vr_process, from a directly constructed engine state (what vr_init + vr_input leave behind:
   * stage 0 holds its pre-load of 2*HALF_FIR_LEN_2 zeros plus VF_NIN input samples, the other stages are derived from it by the
   * real do_input_stage): "slew in progress, step has just crossed the octave boundary" - step, step_step, position symbolic;
   * sample VALUES are data only (zero; the per-sample dot products are replaced at goto-program level by vf_*_data_only: their
   * table index depends on the symbolic position).
   * VF_DIR 0: stage 0 (decimating path, 2x rate) -> stage -1 (interpolating path): ratio falls below 1
   *        1: stage -1 -> stage 0: ratio rises above 1
   *        2: stage 0 -> stage 1 (one more 2:1 decimation in front): ratio rises above 2
   *        3: stage 1 -> stage 0: ratio falls below 2
   * After the call the fade-in stream (new stage) and the fade-out stream (old stage) must describe the SAME ratio trajectory:
   * step and step_step, each divided by its stream's step_mult, agree (up to the bits shifted out by the rescaling), and the
   * read positions address the same instant of the input. */
#ifndef VF_DIR
#define VF_DIR 0
#endif
#ifndef VF_NIN
#define VF_NIN 272
#endif
#define VF_FROM (VF_DIR == 0? 0 : VF_DIR == 1? -1 : VF_DIR == 2? 0 : 1)
#define VF_TO   (VF_DIR == 0? -1 : VF_DIR == 1? 0 : VF_DIR == 2? 1 : 0)
#define VF_K    (VF_DIR < 2? 4 : 2)                  /* ratio of the two streams' step units */
#define VF_NEW_FINER (VF_DIR == 0 || VF_DIR == 3)    /* the new stage runs at the higher sample rate */
  IN_I64(in_step); IN_I64(in_ss); IN_I64(in_at); IN_UINT(in_slew);
  static rate_t R; static stage_t st[3]; static float b_m1[0x8000 / 4], b_0[0x8000 / 4], b_1[0x8000 / 4], b_out[0x8000 / 4];
  int odone; double mc, mf; int64_t at0, step0, ss0;
  fade_coefs[0] = 1;
  R.num_stages0 = R.num_stages = VF_DIR < 2? 1 : 2; R.stages = st + 1;
  st[0].fifo.data = (char *)b_m1; st[0].fifo.allocation = 0x8000; st[0].fifo.item_size = sizeof(float); st[0].step_mult = 2 * MULT32; st[0].preload = 0; st[0].is_fast = 1;
  st[1].fifo.data = (char *)b_0; st[1].fifo.allocation = 0x8000; st[1].fifo.item_size = sizeof(float); st[1].step_mult = MULT32; st[1].preload = 2 * HALF_FIR_LEN_2; st[1].is_fast = 1;
  st[1].fifo.end = (2 * HALF_FIR_LEN_2 + VF_NIN) * sizeof(float);
  st[2].fifo.data = (char *)b_1; st[2].fifo.allocation = 0x8000; st[2].fifo.item_size = sizeof(float); st[2].step_mult = MULT32 / 2; st[2].preload = 3 * HALF_FIR_LEN_2 / 2; st[2].is_fast = 1;
  st[2].fifo.end = (3 * HALF_FIR_LEN_2 / 2) * sizeof(float);
  R.output_fifo.data = (char *)b_out; R.output_fifo.allocation = 0x8000; R.output_fifo.item_size = sizeof(float);
  R.current.stage_num = VF_FROM; enter_new_stage(&R, 0);
#if VF_DIR == 0     /* in stage 0 the step is io_ratio * 2^31; about to leave downwards: below 2^31 */
  VF_ASSUME(in_step > ((int64_t)1 << 28) && in_step < ((int64_t)1 << 31));
#elif VF_DIR == 1   /* in stage -1 the step is io_ratio * 2^33; about to leave upwards: integer part > 1, fraction != 0 */
  VF_ASSUME(in_step > ((int64_t)2 << 32) && in_step < ((int64_t)3 << 32) && (in_step & 0xffffffff) != 0);
#elif VF_DIR == 2   /* stage 0, about to leave upwards: step >= 2^32 with a fraction (io_ratio > 2) */
  VF_ASSUME(in_step > ((int64_t)1 << 32) && in_step < ((int64_t)3 << 31) && (in_step & 0xffffffff) != 0);
#else               /* in stage 1 the step is io_ratio * 2^30; about to leave downwards: below 2^31 */
  VF_ASSUME(in_step > ((int64_t)1 << 28) && in_step < ((int64_t)1 << 31));
#endif
  VF_ASSUME(in_ss > -((int64_t)1 << 20) && in_ss < ((int64_t)1 << 20) && in_ss != 0);
  in_slew = 1000;     /* remaining slew length: constant (it only caps the frames per round; the slew RATE step_step is symbolic) - a symbolic
                       * value makes the per-round frame count symbolic and path-wise exploration then walks infeasible loop iterations */
  VF_ASSUME(in_at >= 0 && in_at < ((int64_t)8 << 32));
  R.current.step.all = step0 = in_step; R.current.step_step.all = ss0 = in_ss; R.current.at.all = at0 = in_at;
  R.slew_len = (int)in_slew; R.new_io_ratio = .9;
  odone = vr_process(&R, 1);
  VF_ASSERT(odone >= 0 && odone <= 1, "vr_process: 0 <= frames <= requested (C07)");
  VF_ASSERT(R.current.stage_num == VF_TO && R.fadeout.stage_num == VF_FROM && (R.fade_len > 0 || odone == 1), "the octave crossing starts a cross-fade from the old stage to the new one (C16)");
  mc = R.current.step_mult; mf = R.fadeout.step_mult;
  VF_ASSERT(VF_NEW_FINER? mc == VF_K * mf : mf == VF_K * mc, "the two stages count positions in units a power of two apart per output frame (4 between the 2x-rate decimating stage 0 and the interpolated stage -1, else 2)");
  { /* compare in the finer scale; the streams have advanced by the SAME number of output frames (odone) */
    int64_t sc = R.current.step.all, sf = R.fadeout.step.all, ssc = R.current.step_step.all, ssf = R.fadeout.step_step.all, d, dd;
    if (VF_NEW_FINER) { sf *= VF_K; ssf *= VF_K; } else { sc *= VF_K; ssc *= VF_K; }
    d = sc - sf; dd = ssc - ssf;
    VF_ASSERT(d >= -8 && d <= 8, "after a stage switch both streams run at the same instantaneous ratio (C16)");
    VF_ASSERT(dd >= -4 && dd <= 4, "after a stage switch both streams slew at the same rate: the ratio keeps moving monotonically towards the target at the set speed (C16)");
    VF_ASSERT(R.fadeout.step_step.all == ss0, "the outgoing stream keeps its slew increment (C16)");
    VF_ASSERT(R.fadeout.step.all == step0 + (odone? ss0 : 0), "the outgoing stream's step advances by step_step per output frame only (C16)");
    /* read positions: neighbouring stages hold the input at sample rates a factor 2 apart, and the end of vr_process subtracts the
     * same consumed input from both, each in its own units */
    if (VF_NEW_FINER) VF_ASSERT(R.current.at.all == 2 * R.fadeout.at.all, "after a stage switch both streams read the same instant of the input (C16)");
    else VF_ASSERT(R.fadeout.at.all - 2 * R.current.at.all >= 0 && R.fadeout.at.all - 2 * R.current.at.all <= 1, "after a stage switch both streams read the same instant of the input (C16)");
  }
  (void)at0;
#elif VF_OP == 6
  /* end of a slew inside the real vr_process (slew_len has reached 0, new_io_ratio pending), with or without a stage cross-fade running:
   * EVERY live stream snaps to the target ratio - in its own fixed-point scale - and stops slewing: "then stays at r" (C16).
   * Engine state constructed as for VF_OP 3; kernels produce no frame (goto-level substitution), so the state asserted is the one the
   * snap block leaves.  VF_FADING 1: cross-fade between stage 0 (fade-out) and stage -1 (current) in progress; 0: no fade */
#ifndef VF_FADING
#define VF_FADING 1
#endif
  IN_I64(in_cstep); IN_I64(in_fstep); IN_I64(in_css); IN_I64(in_fss); IN_DBL(in_target); IN_UINT(in_fade);
  static rate_t R; static stage_t st[2]; static float b_m1[0x8000 / 4], b_0[0x8000 / 4], b_out[0x8000 / 4];
  int odone; int64_t want_c, want_f;
  fade_coefs[0] = 1;
  R.num_stages0 = R.num_stages = 1; R.stages = st + 1;
  st[0].fifo.data = (char *)b_m1; st[0].fifo.allocation = 0x8000; st[0].fifo.item_size = sizeof(float); st[0].step_mult = 2 * MULT32; st[0].preload = 0; st[0].is_fast = 1;
  st[1].fifo.data = (char *)b_0; st[1].fifo.allocation = 0x8000; st[1].fifo.item_size = sizeof(float); st[1].step_mult = MULT32; st[1].preload = 2 * HALF_FIR_LEN_2; st[1].is_fast = 1;
  st[1].fifo.end = (2 * HALF_FIR_LEN_2 + 272) * sizeof(float);
  R.output_fifo.data = (char *)b_out; R.output_fifo.allocation = 0x8000; R.output_fifo.item_size = sizeof(float);
  R.current.stage_num = 0; enter_new_stage(&R, 0); R.fadeout = R.current;      /* fade-out stream: stage 0 */
  R.current.stage_num = -1; enter_new_stage(&R, 0);                             /* current stream: stage -1 */
  VF_ASSUME(in_cstep > 0 && in_cstep < ((int64_t)1 << 36) && in_fstep > 0 && in_fstep < ((int64_t)1 << 34));
  VF_ASSUME(in_css > -((int64_t)1 << 20) && in_css < ((int64_t)1 << 20) && in_fss > -((int64_t)1 << 20) && in_fss < ((int64_t)1 << 20));
  VF_ASSUME(in_target == .5 || in_target == .75 || in_target == .9375 || in_target == .96875);      /* ratio inside stage -1's octave, exactly representable: the expected steps are exact */
  R.current.step.all = in_cstep; R.current.step_step.all = in_css; R.fadeout.step.all = in_fstep; R.fadeout.step_step.all = in_fss;
  R.fade_len = VF_FADING? 512 : 0; (void)in_fade;
  R.slew_len = 0; R.new_io_ratio = in_target;
  odone = vr_process(&R, 1);
  VF_ASSERT(odone == 0, "harness: kernels produce no frame");
  want_c = (int64_t)(in_target * R.current.step_mult + .5); want_f = (int64_t)(in_target * R.fadeout.step_mult + .5);
  VF_ASSERT(R.new_io_ratio == 0, "the pending target is consumed once the slew has ended (C16)");
  VF_ASSERT(R.current.step.all == want_c && R.current.step_step.all == 0, "at the end of a slew the stream snaps to the target ratio and stops slewing: then stays at r (C16)");
#if VF_FADING
  VF_ASSERT(R.fadeout.step.all == want_f && R.fadeout.step_step.all == 0, "a stream that is still being faded out snaps to the SAME target (in its own scale) and stops slewing too: no drift between the two streams of a cross-fade (C16)");
#endif
#elif VF_OP == 5
  /* C10: history independence of the process-wide VR coefficient tables.  Two engine instances are initialised by the real vr_init
   * with gains multA and multB (io_spec.scale x datatype full-scale ratio, any values); then instance B produces one output frame
   * through the real vr_process (B's FIFOs are replaced by statically allocated ones of the same content so that the symbolic execution sees
   * constants).  With DC-gain semantics for the tables (above) that frame is exactly the gain instance B applies to a constant
   * input: it must be B's own gain, whatever instance A asked for.
   * VF_PATH 0: interpolating stream (stage -1: poly_fir_u), 1: decimating stream (stage 0: poly_fir_d + half-band IIR) */
#ifndef VF_PATH
#define VF_PATH 0
#endif
#ifndef VF_ASTAGES
#define VF_ASTAGES VF_PATH
#endif
  IN_DBL(in_multA); IN_DBL(in_multB);
  static rate_t A, B; static stage_t st[2]; static float b_m1[0x8000 / 4], b_0[0x8000 / 4], b_out[0x8000 / 4];
  int odone; float want, got;
  VF_ASSUME(in_multA >= 1. / 1099511627776. && in_multA <= 1099511627776. && in_multB >= 1. / 1099511627776. && in_multB <= 1099511627776.);    /* 2^-40 .. 2^40: normal floats */
  vr_init(&A, 1., VF_ASTAGES, in_multA);       /* the earlier instance: with or without decimation stages (max. ratio <= 1 or > 1) */
  vr_init(&B, 1., VF_PATH, in_multB);
  st[0].fifo.data = (char *)b_m1; st[0].fifo.allocation = 0x8000; st[0].fifo.item_size = sizeof(float); st[0].step_mult = 2 * MULT32; st[0].preload = 0; st[0].is_fast = 1;
  st[1].fifo.data = (char *)b_0; st[1].fifo.allocation = 0x8000; st[1].fifo.item_size = sizeof(float); st[1].step_mult = MULT32; st[1].preload = 2 * HALF_FIR_LEN_2; st[1].is_fast = 1;
  st[1].fifo.end = (2 * HALF_FIR_LEN_2 + 272) * sizeof(float);
  B.stages = st + 1;
  B.output_fifo.data = (char *)b_out; B.output_fifo.allocation = 0x8000; B.output_fifo.item_size = sizeof(float); B.output_fifo.begin = B.output_fifo.end = 0;
  B.default_io_ratio = 0;                                     /* ratio already set: ratio 1 in the stream's own units, mid-octave */
  B.current.stage_num = VF_PATH? 0 : -1; enter_new_stage(&B, 0);
  B.current.step.all = VF_PATH? ((int64_t)3 << 30) : ((int64_t)3 << 31); B.current.at.all = 0;
  odone = vr_process(&B, 1);
  VF_ASSERT(odone == 1, "one frame is produced");
  got = b_out[0]; want = (float)in_multB;
  VF_ASSERT(got >= want * (1 - 1e-6f) && got <= want * (1 + 1e-6f),
      "an instance applies ITS OWN gain (io_spec.scale x datatype ratio), whatever gain an earlier instance was created with: process-wide tables do not leak one instance's settings into another (C10)");
#endif
  VF_WITNESS();
}
