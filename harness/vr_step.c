/* C16: the variable-rate engine vr32.c (real file, reached by textual inclusion).
 * VF_OP 0  slew set-up: set_step_step / vr_set_io_ratio for every 64-bit step value, target and slew length
 *       1  poly_fir_u: per output frame the read position advances by step and step by step_step, exactly once
 *       2  poly_fir_d: the same per PAIR of 2x-rate samples (one output frame)
 *       3  stage switch inside vr_process: the rescaling of at / step / step_step keeps the ratio trajectory */
#include "vf.h"
#include <string.h>
#include <stdlib.h>
#include <math.h>
#include "vr32.c"

#ifndef VF_OP
#define VF_OP 0
#endif
#ifndef VF_PART
#define VF_PART 0
#endif
#ifndef VF_SLEWBITS
#define VF_SLEWBITS 31
#endif
#ifndef VF_DIFBITS
#define VF_DIFBITS 44
#endif

VF_MAIN
{
#if VF_OP == 0
  IN_I64(in_step); IN_I64(in_target); IN_UINT(in_slew);
  stream_t s; int64_t dif, tot; bool moving;
  memset(&s, 0, sizeof(s));
  VF_ASSUME(in_step > 0 && in_step < ((int64_t)1 << 44) && in_target > 0 && in_target < ((int64_t)1 << 44));
#ifdef VF_SLEW      /* slew length constant per obligation: division / multiplication by a constant (symbolic lengths gave no verdict on any back end) */
  in_slew = VF_SLEW;
#endif
  VF_ASSUME(in_slew >= 1 && in_slew < (1u << VF_SLEWBITS));
  VF_ASSUME(in_target - in_step < ((int64_t)1 << VF_DIFBITS) && in_step - in_target < ((int64_t)1 << VF_DIFBITS));
  s.step.all = in_step; s.step_mult = 1.;          /* io_ratio * step_mult: with step_mult == 1 the target step is the integer handed in */
  moving = set_step_step(&s, (double)in_target, (int)in_slew);
  dif = in_target - in_step;
  VF_ASSERT(s.step.all == in_step, "setting up a slew does not jump the current step (C16)");
  if (dif > 0) VF_ASSERT(s.step_step.all >= 0, "slew moves towards the target (C16)");
  if (dif < 0) VF_ASSERT(s.step_step.all <= 0, "slew moves towards the target (C16)");
  if (dif == 0) VF_ASSERT(s.step_step.all == 0, "no slew when already at the target");
#if VF_PART != 2
  tot = s.step_step.all * (int64_t)in_slew;         /* total movement over slew_len output frames */
  VF_ASSERT(tot - dif <= (int64_t)(in_slew >> 1) + 1 && dif - tot <= (int64_t)(in_slew >> 1) + 1,
      "after slew_len frames the step is within half a 2^-32 unit per frame of the target: the final snap is below one LSB per frame (C16)");
  if (dif >= 0) VF_ASSERT(tot <= dif + (int64_t)(in_slew >> 1), "no overshoot beyond the rounding of the per-frame increment (C16)");
  VF_ASSERT(moving == (s.step_step.all != 0), "set_step_step reports whether anything moves");
#endif
#if VF_PART != 1
  { /* the int fast path agrees with the 64-bit division */
    int64_t d2 = dif < 0? dif - (in_slew >> 1) : dif + (in_slew >> 1);
    VF_ASSERT(s.step_step.all == d2 / (int64_t)in_slew, "int and int64 division paths agree (C16)");
  }
#endif
  (void)tot; (void)moving;
#elif VF_OP == 1 || VF_OP == 2
  IN_I64(in_at); IN_I64(in_step); IN_I64(in_ss); IN_UINT(in_len); IN_UINT(in_olen);
  static float inbuf[64], outbuf[16];
  stream_t s; int o, k; int64_t at = in_at, st = in_step;
  memset(&s, 0, sizeof(s));
  VF_ASSUME(in_at >= 0 && in_at < ((int64_t)4 << 32) && in_step > 0 && in_step < ((int64_t)4 << 32));
  VF_ASSUME(in_ss > -((int64_t)1 << 24) && in_ss < ((int64_t)1 << 24) && in_step + 8 * in_ss > 0);
  VF_ASSUME(in_len <= 8 && in_olen <= 3);
  s.at.all = in_at; s.step.all = in_step; s.step_step.all = in_ss; s.len = (int)in_len;
  s.input = inbuf + 24;                   /* context: LEN/2-1 samples before, LEN/2 + len + step after */
#if VF_OP == 1
  o = poly_fir_u(&s, outbuf, (int)in_olen);
  VF_ASSERT(o >= 0 && o <= (int)in_olen, "poly_fir_u: 0 <= frames <= requested");
  for (k = 0; k < 3; ++k) if (k < o) { at += st; st += in_ss; }
  VF_ASSERT(s.at.all == at && s.step.all == st, "per output frame: position += step, then step += step_step, exactly once (C16)");
  if (o < (int)in_olen) VF_ASSERT(INT(s.at) >= (int)in_len, "stops only when the input is exhausted (C16/C08)");
#else
  o = poly_fir_d(&s, outbuf, (int)in_olen * 2);
  VF_ASSERT(o >= 0 && o <= (int)in_olen * 2, "poly_fir_d: 0 <= samples <= requested");
  for (k = 0; k < 3; ++k) if (2 * k + 1 < o) { at += st; at += st; st += in_ss; }
  if (!(o & 1)) VF_ASSERT(s.at.all == at && s.step.all == st, "per output frame (pair of 2x samples): position += 2*step, step += step_step once (C16)");
  if (o & 1) VF_ASSERT(s.at.all == at && s.step.all == st, "an incomplete pair is rolled back: position and step unchanged by it (C16)");
#endif
  VF_ASSERT(s.step_step.all == in_ss, "the slew increment is constant within a call");
#endif
  VF_WITNESS();
}
