/* C11: output conversion kernels of data-io.c / rint-clip.h (real files, x87
 * FIST model of x87_model.h).  One obligation = one kernel (engine precision x
 * otype x mono/strided x dither), a concrete frame count VF_N, ONE sample with
 * every bit symbolic at position (VF_K, channel VF_C); the other samples are
 * concrete (so cbmc folds them) - optionally one of them out of range
 * (VF_OVF) so that the 16-sample block's clip fix-up path re-runs the block
 * while the symbolic sample sits in it.
 * Oracle (from the property, not from the code): round to nearest (either
 * neighbour at an exact tie), saturate at the type limits, never wrap; clip
 * counter == number of saturated samples; NaN -> a type limit, counted;
 * dither: |out - x| < 1.5 LSB. */
#include "vf.h"
#include <math.h>
#include "soxr.h"
#include "data-io.h"

#ifndef VF_DBL
#define VF_DBL 0
#endif
#ifndef VF_OT            /* SOXR_INT32 = 2, SOXR_INT16 = 3 */
#define VF_OT 2
#endif
#ifndef VF_CH
#define VF_CH 1
#endif
#ifndef VF_N
#define VF_N 17
#endif
#ifndef VF_K
#define VF_K 0
#endif
#ifndef VF_C
#define VF_C 0
#endif
#ifndef VF_OVF
#define VF_OVF -1
#endif
#ifndef VF_DITHER
#define VF_DITHER 0
#endif
#ifndef VF_SEEDVAL
#define VF_SEEDVAL 12345ul
#endif

#if VF_DBL
typedef double fx_t;
#else
typedef float fx_t;
#endif
#if VF_OT == 2
typedef int32_t out_t;
#define HI 2147483647.0
#define LO (-2147483648.0)
#else
typedef int16_t out_t;
#define HI 32767.0
#define LO (-32768.0)
#endif

/* 1: ok, not saturated; 2: ok, saturated; 3: ok either way; 0: wrong */
static int judge(double x, double out, double tol)
{
  if (x != x) return (out == HI || out == LO)? 2 : 0;
  if (x > HI + tol) return out == HI? 2 : 0;
  if (x < LO - tol) return out == LO? 2 : 0;
  if (x >= HI - tol + 1 && out == HI) return 3;        /* within reach of the limit: saturated or not */
  if (x <= LO + tol - 1 && out == LO) return 3;
  return (out - x <= tol && x - out <= tol)? 1 : 0;
}

static fx_t concrete(int j, int c) { return (fx_t)(j * 1.25 - 3. + c * .5); }

VF_MAIN
{
  static fx_t s0[VF_N], s1[VF_N];
  fx_t const * srcs[2];
  out_t dest[VF_N * VF_CH];
  void * d = dest;
  unsigned long seed = VF_SEEDVAL, seed0;
  size_t clips, expect_min = 0, expect_max = 0;
  int j, c;
#if VF_DBL
  IN_DBL(in_x);
#else
  IN_FLT(in_x);
#endif
#if VF_DITHER == 2
  IN_ULONG(in_seed); seed = in_seed;
#endif
  double const tol = VF_DITHER? .5 + 31. / 32 + 1e-9 : .5;
  seed0 = seed;
  srcs[0] = s0; srcs[1] = s1;
  for (j = 0; j < VF_N; ++j) { s0[j] = concrete(j, 0); s1[j] = concrete(j, 1); }
  if (VF_OVF >= 0) (VF_C? s1 : s0)[VF_OVF] = (fx_t)(VF_OVF & 1? -3e9 : 3e9);
  (VF_C? s1 : s0)[VF_K] = in_x;
#if VF_DBL
  clips = _soxr_interleave((soxr_datatype_t)VF_OT, &d, (double const * const *)srcs, VF_N, VF_CH, VF_DITHER? &seed : 0);
#else
  clips = _soxr_interleave_f((soxr_datatype_t)VF_OT, &d, (float const * const *)srcs, VF_N, VF_CH, VF_DITHER? &seed : 0);
#endif
  VF_ASSERT(d == (void *)(dest + VF_N * VF_CH), "destination pointer advanced by exactly n frames");
  for (j = 0; j < VF_N; ++j) for (c = 0; c < VF_CH; ++c) {
    double x = (double)(c? s1 : s0)[j], out = (double)dest[j * VF_CH + c];
    int v = judge(x, out, tol);
    VF_ASSERT(v != 0, "sample is the input rounded to nearest and saturated at the type limits (never wraps)");
    if (v == 2) ++expect_min, ++expect_max; else if (v == 3) ++expect_max;
  }
  VF_ASSERT(clips >= expect_min && clips <= expect_max, "clip counter == number of saturated samples");
  if (!VF_DITHER) VF_ASSERT(seed == seed0, "no dither: seed untouched");
  VF_WITNESS();
}
