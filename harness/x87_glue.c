#undef memcpy
/* storage of the x87 model's sticky invalid flag (CBMC build only) */
int vf_x87_ie;

#if !defined VF_NATIVE && defined VF_DATAIO_MEMCPY
#include <stddef.h>
void * vf_word_memcpy(void * d, void const * s, size_t n)
{
  size_t i;
  __CPROVER_assert(n % 4 == 0, "harness model: memcpy length is a multiple of the sample size");
  for (i = 0; i < n / 4; ++i) ((unsigned *)d)[i] = ((unsigned const *)s)[i];
  return d;
}
#endif
