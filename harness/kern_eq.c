/* C13: the fixed-length portable kernels of cr-core.c (u100_0/1/2, U100_0: compiled with their own literal FIR length and
 * PHASE_BITS) against the general kernels vpoly0/1/2 that the SIMD engines use for the same table rows: run on the SAME
 * stage state, the same symbolic coefficient table and input window, with n and phase_bits taken from the REAL poly_firs[]
 * row exactly as _soxr_init derives them (num_coefs = interp[0].scalar, phase_bits = ceil(interp[i].scalar) for mult == 1):
 * outputs, consumption and clock must be bit-identical.  A table entry that disagrees with the constant compiled into the
 * kernel it names (two sites that each look fine alone) makes the results differ. */
#include "vf.h"
#include <string.h>
#include <stdlib.h>
#include <math.h>
#include "cr32.c"
#ifndef VF_PAIR
#define VF_PAIR 1
#endif
#if VF_PAIR == 0
#define ROW 13
#define IDX 0
#define KFIX u100_0
#define KGEN vpoly0
#elif VF_PAIR == 1
#define ROW 13
#define IDX 1
#define KFIX u100_1
#define KGEN vpoly1
#elif VF_PAIR == 2
#define ROW 13
#define IDX 2
#define KFIX u100_2
#define KGEN vpoly2
#else
#define ROW 12
#define IDX 0
#define KFIX U100_0
#define KGEN vpoly0
#endif
#define COEF_CAP 12000
#include "vf_coef_table.h"     /* generated: vf_coefs[i] == i (index-revealing constant table) */
static rate_shared_t vf_shared;
static sample_t inA[64], outA[8], outB[8];

static void setup(stage_t * s, fifo_t * out, sample_t * om, unsigned occ)
{
  memset(s, 0, sizeof(*s)); memset(out, 0, sizeof(*out));
  s->fifo.data = (char *)inA; s->fifo.allocation = sizeof(inA); s->fifo.item_size = sizeof(sample_t); s->fifo.begin = 0; s->fifo.end = occ * sizeof(sample_t);
  out->data = (char *)om; out->allocation = 8 * sizeof(sample_t); out->item_size = sizeof(sample_t);
  s->shared = &vf_shared; vf_shared.poly_fir_coefs = vf_coefs;
}

static int64_t const probe_at[] = {0, 0x80000000ll, 0x00800000ll, 0x00400000ll, 0x01000000ll, 0x7fffffffll, 0xff800001ll, 0x12345678ll};

VF_MAIN
{
  /* Concrete probe states (8 clock fractions that separate every PHASE_BITS value 1..9, two steps, distinct sample weights, table
   * entry i == i): cbmc executes both real kernels on each; this obligation is decided by symbolic execution alone (constant
   * propagation) - it quantifies over nothing and is labelled so in the evidence.  (A symbolic table/clock needs > 10 GB: measured.) */
  poly_fir_t const * row = &poly_firs[ROW];
  int n = (int)row->interp[0].scalar, phase_bits = 0, k, oA, oB, pi, i;
  VF_ASSERT(row->interp[IDX].fn == KFIX, "poly_firs[] row names the fixed-length kernel this obligation is about (table shape)");
  VF_ASSERT(n >= 2 && n <= 48, "fixed FIR length listed in the table");
  for (i = 0; i < 64; ++i) inA[i] = (sample_t)(1 + i % 7);
  for (pi = 0; pi < 8; ++pi) {
    stage_t A, B; fifo_t oa, ob;
    setup(&A, &oa, outA, (unsigned)n + 1); setup(&B, &ob, outB, (unsigned)n + 1);
    A.pre = 0; A.pre_post = n - 1; A.input_size = 2; A.n = n;
#if IDX == 0
    A.L = 3; A.at.integer = pi % 3; A.step.integer = 3 + pi % 4;
#else
    phase_bits = (int)ceil(row->interp[IDX].scalar);      /* cr.c:416 with mult == 1 (the up-sampling rows) */
    VF_ASSERT(phase_bits >= 1 && phase_bits <= 9, "phase bits listed in the table");
    VF_ASSERT((n * (IDX + 1)) << phase_bits <= COEF_CAP, "harness bound: coefficient table");
    A.at.whole = probe_at[pi]; A.step.whole = 0x140000000ll; A.phase_bits = phase_bits; A.L = 1; A.out_in_ratio = 2.000001;
#endif
    B.pre = A.pre; B.pre_post = A.pre_post; B.input_size = A.input_size; B.n = A.n; B.L = A.L; B.at = A.at; B.step = A.step;
    B.phase_bits = A.phase_bits; B.out_in_ratio = A.out_in_ratio;
    KFIX(&A, &oa);
    KGEN(&B, &ob);
    oA = fifo_occupancy(&oa); oB = fifo_occupancy(&ob);
    VF_ASSERT(oA == oB && oA >= 1 && fifo_occupancy(&A.fifo) == fifo_occupancy(&B.fifo) && A.at.whole == B.at.whole,
        "fixed-length and general kernel: same output count, consumption and clock (C13: identical length/delay behaviour)");
    for (k = 0; k < 5; ++k) if (k < oA) {
      uint32_t a, b; memcpy(&a, &outA[k], 4); memcpy(&b, &outB[k], 4);
      VF_ASSERT(a == b, "fixed-length and general kernel compute bit-identical samples from the same table and window (C13)");
    }
  }
  VF_WITNESS();
}
