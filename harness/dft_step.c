/* L3: ONE call of the real dft_stage_fn (cr.c, static: reached by inclusion) - the overlap-save DFT stage incl. time-domain
 * and frequency-domain up-sampling and time-domain decimation - from an arbitrary stage state inside ENV(dft) (what
 * dft_stage_init establishes: obligation plan_dft_stage_init).  The transforms are stubs (data only); what is decided is the
 * block bookkeeping: when a block is taken, how many input samples it consumes, how the interpolation phase at.integer and
 * the decimation phase remM are carried to the next block, how many outputs are appended, and that every access stays
 * inside the FIFO allocations / scratch buffers (cbmc pointer checks).
 *   virtual positions (C04/C03/C05): up-sampled domain  at' == at + consumed*L - block_len,  0 <= at' < L
 *                                     decimation         remM + produced*M == block_len + remM',  0 <= remM' < M
 * VF_DFTLEN, VF_L, VF_M, VF_DBL constant per obligation (memcpy/memset lengths then are constants); overlap, phases and
 * FIFO fill symbolic. */
#include "vf.h"
#include <string.h>
#include <stdlib.h>
#include <math.h>
#include "filter.h"
double * _soxr_design_lpf(double Fp, double Fs, double Fn, double att, int * num_taps, int k, double beta)
{ (void)Fp; (void)Fs; (void)Fn; (void)att; (void)num_taps; (void)k; (void)beta; return 0; }
void _soxr_fir_to_phase(double * * h, int * len, int * post_len, double phase) { (void)h; (void)len; (void)post_len; (void)phase; }
double _soxr_inv_f_resp(double drop, double a) { (void)drop; (void)a; return .5; }
double _soxr_f_resp(double t, double a) { (void)t; (void)a; return -1.; }
#if !defined VF_NATIVE
int _soxr_trace_level; void _soxr_trace(char const * fmt, ...) { (void)fmt; }
#endif
#if !defined VF_NATIVE
div_t div(int n, int d) { div_t r; r.quot = n / d; r.rem = n % d; return r; }      /* libc div(): truncating quotient and remainder (C99 7.20.6.2) */
#endif
#include "cr.c"

#ifndef VF_DFTLEN
#define VF_DFTLEN 32
#endif
#ifndef VF_L
#define VF_L 1
#endif
#ifndef VF_M
#define VF_M 1
#endif
#ifndef VF_DBL
#define VF_DBL 0
#endif
#ifndef VF_FDM
#define VF_FDM 0
#endif
#ifndef VF_SIMD               /* 1: back end with its own output buffer + scratch (pffft), 0: in place (fft4g) */
#define VF_SIMD 0
#endif
#if VF_DBL
typedef double rl_t;
#else
typedef float rl_t;
#endif

static unsigned xform_calls;
static void cb_xform(int n, void * setup, void * data, void * scratch) { (void)n; (void)setup; (void)data; (void)scratch; ++xform_calls; }
static void cb_convolve(int n, void * s, void * a, void const * b) { (void)n; (void)s; (void)a; (void)b; }
static void cb_convolve_portion(int n, void * a, void const * b) { (void)n; (void)a; (void)b; }
static int cb_multiplier(void) { return 2; }
static int cb_flags(void) { return VF_SIMD? (RDFT_IS_SIMD | RDFT_NEEDS_SCRATCH) : 0; }
static fn_t vf_cb[15];

#define IN_CAP (VF_DFTLEN + 24)
VF_MAIN
{
  IN_UINT(in_occ); IN_UINT(in_ntaps); IN_UINT(in_at); IN_UINT(in_remM); IN_UINT(in_oocc);
  static stage_t st; static rate_shared_t sh; static fifo_t out;
  dft_filter_t * f = &sh.dft_filter[0];
  rl_t * inmem = malloc(IN_CAP * sizeof(rl_t)), * outmem = malloc((VF_DFTLEN + 8) * sizeof(rl_t));
  rl_t * coefs = malloc(VF_DFTLEN * sizeof(rl_t)), * dftout = malloc(VF_DFTLEN * sizeof(rl_t)), * scratch = malloc(2 * VF_DFTLEN * sizeof(rl_t));
  int block_len, overlap, num_in, ready, q, c, o;
  VF_ASSUME(inmem && outmem && coefs && dftout && scratch);
  vf_cb[3] = vf_cb[4] = vf_cb[5] = vf_cb[6] = vf_cb[10] = (fn_t)cb_xform; vf_cb[7] = (fn_t)cb_convolve; vf_cb[8] = (fn_t)cb_convolve_portion;
  vf_cb[9] = (fn_t)cb_multiplier; vf_cb[14] = (fn_t)cb_flags;
  /* ---- ENV(dft) ---- */
  VF_ASSUME(in_ntaps >= 1 && in_ntaps <= VF_DFTLEN);
  f->dft_length = VF_DFTLEN; f->num_taps = (int)in_ntaps; f->coefs = coefs; f->dft_forward_setup = coefs; f->dft_backward_setup = coefs;
  overlap = (int)in_ntaps - 1; block_len = VF_DFTLEN - overlap;
  st.shared = &sh; st.dft_filter_num = 0; st.rdft_cb = vf_cb;
  st.core_flags = (VF_DBL? CORE_DBL : 0) | (VF_SIMD? CORE_SIMD_DFT : 0);
  st.dft_out = (float *)dftout; st.dft_scratch = scratch;
#if VF_FDM      /* frequency-domain decimation by M = 2 or 4 (dft_stage_init: step.integer = -M/2) */
  st.L = VF_L; st.step.integer = -(VF_M / 2);
#else
  st.L = VF_L; st.step.integer = VF_M;
#endif
  VF_ASSUME(in_at < VF_L && in_remM < VF_M);
  if (lsx_is_power_of_2(VF_L)) VF_ASSUME(in_at == 0 && overlap % VF_L == 0);   /* frequency-domain up-sampling: block-aligned (dft_stage_init k = 2L; KF_C14_POW2_NONLINEAR is the case where at != 0) */
  st.at.integer = (int)in_at; st.remM = (int)in_remM;
  st.block_len = block_len;
  st.input_size = (VF_DFTLEN - (int)in_at + VF_L - 1) / VF_L;
#ifdef VF_BIGOCC      /* a very full input FIFO: what an interpolating poly-phase stage in front delivers in ONE call at extreme up-sampling ratios
                       * (1 + 8192 * out_in_ratio samples).  Only the first block may be touched: the harness buffer holds just that. */
  VF_ASSUME(in_occ >= IN_CAP && in_occ < (1u << 26) && in_oocc <= 4);
  st.fifo.data = (char *)inmem; st.fifo.item_size = sizeof(rl_t);
  st.fifo.begin = 0; st.fifo.end = (size_t)in_occ * sizeof(rl_t); st.fifo.allocation = st.fifo.end;
#else
  VF_ASSUME(in_occ <= IN_CAP && in_oocc <= 4);
  st.fifo.data = (char *)inmem; st.fifo.allocation = IN_CAP * sizeof(rl_t); st.fifo.item_size = sizeof(rl_t);
  st.fifo.begin = (IN_CAP - in_occ) * sizeof(rl_t); st.fifo.end = IN_CAP * sizeof(rl_t);       /* valid region ends at the allocation edge: an over-read is a pointer-check failure */
#endif
  out.data = (char *)outmem; out.allocation = (VF_DFTLEN + 8) * sizeof(rl_t); out.item_size = sizeof(rl_t);
  out.begin = 0; out.end = in_oocc * sizeof(rl_t);
  num_in = (int)in_occ;
  ready = (long)in_at + (long)VF_L * num_in >= VF_DFTLEN;

  dft_stage_fn(&st, &out);

  c = (int)in_occ - fifo_occupancy(&st.fifo); o = fifo_occupancy(&out) - (int)in_oocc;
  if (!ready) {
    VF_ASSERT(c == 0 && o == 0 && st.at.integer == (int)in_at && st.remM == (int)in_remM && xform_calls == 0,
        "no block is taken before a whole DFT block of input is buffered (C05)");
  } else {
    q = (block_len - (int)in_at + VF_L - 1) / VF_L;
    VF_ASSERT(c == q, "a block consumes exactly the input that advances the up-sampled position by block_len (C03/C04)");
    if (!lsx_is_power_of_2(VF_L) && VF_L > 1)
      VF_ASSERT(st.at.integer == (int)in_at + q * VF_L - block_len && st.at.integer >= 0 && st.at.integer < VF_L,
          "interpolation phase carried exactly to the next block: at' == at + consumed*L - block_len (C04)");
    else VF_ASSERT(st.at.integer == (int)in_at, "interpolation phase unchanged when L divides the block (C04)");
    if (lsx_is_power_of_2(VF_L)) VF_ASSERT(q * VF_L == block_len, "frequency-domain up-sampling consumes exactly block_len / L samples (C04)");
#if VF_FDM
    VF_ASSERT(o * VF_M <= block_len + VF_M - 1 && o * VF_M >= block_len - (VF_M - 1) && st.remM == (int)in_remM,
        "frequency-domain decimation: one output per M filtered samples of the block (C03/C04)");
#elif VF_M > 1
    VF_ASSERT((int)in_remM + o * VF_M == block_len + st.remM && st.remM >= 0 && st.remM < VF_M,
        "decimation phase carried exactly: remM + produced*M == block_len + remM' (one output per M filtered samples over any number of blocks) (C03/C04)");
#else
    VF_ASSERT(o == block_len, "one block yields block_len outputs (dft_length - overlap) (C03)");
#endif
    VF_ASSERT(o >= 1 || st.remM < (int)in_remM, "a block yields output or brings the next output closer (C08)");
  }
  VF_ASSERT(st.input_size == (VF_DFTLEN - st.at.integer + VF_L - 1) / VF_L && st.input_size >= 1, "the stage asks for exactly the input of the next block (C08/C05)");
  VF_WITNESS();
}
