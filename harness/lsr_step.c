/* C19: the libsamplerate-compatible wrapper soxr-lsr.c (real file) on top of the real soxr.c, over the abstract engine.
 * VF_OP 0  src_process with a symbolic SRC_DATA from any API state
 *       1  src_callback_read
 *       2  NULL converter / NULL data block
 *      10  src_float_to_short_array   11  src_float_to_int_array   (every float32 bit pattern)
 *      12  src_short_to_float_array   13  src_int_to_float_array   (every short / int) */
#undef memcpy
#include "vf.h"
#include "soxr.c"
#undef min
#undef max
#include "soxr-lsr.c"
#include "abs_engine.h"
#include "api_common.h"
#ifdef VF_NATIVE
static int vf_x87_ie;      /* the model's flag does not exist in the native build (real asm) */
#endif

static size_t eng_taken(unsigned c) { return vf_objs[c].in_total + vf_objs[c].inbuf_n; }
static size_t fn_seq_base(void) { return eng_taken(0); }
#ifndef VF_OP
#define VF_OP 0
#endif
#ifndef VF_RATIO
#define VF_RATIO 2.0
#endif

#if VF_OP == 1
static float * cb_buf; static long in_cb_ret_v; static unsigned cb_calls;
/* registered with soxr's own signature: src_callback_new's cast of a 2-argument libsamplerate callback to soxr_input_fn_t
 * relies on the platform ABI and is not modelled (cbmc only calls type-compatible targets) */
static size_t vf_lsr_cb(void * st, soxr_in_t * data, size_t req) { (void)st; (void)req; *data = cb_buf; return ++cb_calls > 2? 0 : (size_t)in_cb_ret_v; }   /* the application's data ends after two blocks */
#endif

VF_MAIN
{
#if VF_OP < 10
  IN_UINT(in_nthreads); IN_UINT(in_flushing); IN_UINT(in_err); IN_LONG(in_iframes); IN_LONG(in_oframes); IN_UINT(in_eoi);
  IN_ULONG(in_clips);
  soxr_t p; unsigned c;
  AE_NONDET();
  IN_GARR(in_fn_ret); IN_GARR(in_fn_kind);
  VF_ASSUME(in_ae_delay == in_ae_delay);
  VF_ASSUME(in_nthreads < 2 && in_flushing < 2 && in_err < 2 && in_eoi < 2);
  g_ch = VF_CH; g_itype = g_otype = SOXR_FLOAT32_I;     /* the wrapper's sample format */
  fn_seq = 1;
  p = vf_make_soxr(1 / VF_RATIO, in_nthreads, 0);
  p->flushing = (int)in_flushing;
  p->error = in_err? "some earlier error" : 0;
  p->clips = in_clips;
#endif

#if VF_OP == 0
  {
    SRC_DATA io; int rc;
    VF_ASSUME(in_iframes >= 0 && in_iframes <= VF_CAP && in_oframes >= 0 && in_oframes <= VF_CAP);
    io.data_in = make_buf(g_itype, VF_CH, (size_t)in_iframes);
    io.data_out = make_buf(g_otype, VF_CH, (size_t)in_oframes);
    fill_seq(g_itype, io.data_in, VF_CH, (size_t)in_iframes, 0);
    io.input_frames = in_iframes; io.output_frames = in_oframes; io.end_of_input = (int)in_eoi; io.src_ratio = VF_RATIO;
    io.input_frames_used = -7; io.output_frames_gen = -7;
    rc = src_process(p, &io);
    VF_ASSERT(io.input_frames_used >= 0 && io.input_frames_used <= io.input_frames, "src_process: 0 <= input_frames_used <= input_frames (C19)");
    VF_ASSERT(io.output_frames_gen >= 0 && io.output_frames_gen <= io.output_frames, "src_process: 0 <= output_frames_gen <= output_frames (C19)");
    VF_ASSERT((rc != 0) == (soxr_error(p) != 0), "src_process returns non-zero iff an error is pending (C19)");
    for (c = 0; c < VF_CH; ++c) {
      VF_ASSERT(eng_taken(c) == (size_t)io.input_frames_used, "frames handed to the engine == input_frames_used (C19)");
      VF_ASSERT(vf_objs[c].out_total == (size_t)io.output_frames_gen, "frames drawn from the engine == output_frames_gen (C19)");
    }
    if (!in_err && in_eoi && io.input_frames_used == io.input_frames)
      VF_ASSERT(p->flushing, "end_of_input with all input taken latches end-of-input, also for input_frames == 0 (C19/C03)");
    if (!in_err && !in_eoi && !in_flushing) VF_ASSERT(!p->flushing, "without end_of_input the stream stays open (C19)");
    if (!in_err && VF_KIND == 8) for (c = 0; c < VF_CH; ++c)
      VF_ASSERT(vf_objs[c].setratio_calls == 1 && vf_objs[c].last_ratio == 1 / VF_RATIO && vf_objs[c].last_slew == (size_t)in_oframes,
          "ratio is forwarded to every channel with a slew over the block (C19/C16)");
    if (in_err) VF_ASSERT(io.output_frames_gen == 0 && rc != 0, "pending error: no output, error code (C19/C09)");
  }
#elif VF_OP == 1
  {
    IN_LONG(in_olen); float * obuf; long got; IN_LONG(in_cb_ret);
    VF_ASSUME(in_olen >= -2 && in_olen <= VF_CAP && in_cb_ret >= 0 && in_cb_ret <= VF_CAP);
    in_cb_ret_v = in_cb_ret;
    cb_buf = make_buf(g_itype, VF_CH, (size_t)in_cb_ret);
    fill_seq(g_itype, cb_buf, VF_CH, (size_t)in_cb_ret, 0);
    ae_check_seq = 0;       /* the callback hands over the same block each time: order is C18's subject */
    soxr_set_input_fn(p, vf_lsr_cb, 0, 0);
    obuf = make_buf(g_otype, VF_CH, in_olen > 0? (size_t)in_olen : 0);
    got = src_callback_read(p, VF_RATIO, in_olen, obuf);
    if (in_olen < 0) VF_ASSERT(got == -1 && cb_calls == 0, "negative length is refused (C19)");
    else VF_ASSERT(got >= 0 && got <= in_olen, "src_callback_read: 0 <= frames <= requested (C19)");
    if (in_olen >= 0) for (c = 0; c < VF_CH; ++c)
      VF_ASSERT(vf_objs[c].out_total == (size_t)got, "frames drawn from the engine == return value (C19)");
    if (in_err && in_olen >= 0) VF_ASSERT(got == 0 && cb_calls == 0, "pending error: nothing read, callback not called (C19/C09)");
    if (!in_err && in_olen >= 0 && in_cb_ret == 0 && cb_calls) VF_ASSERT(p->flushing, "callback returning 0 ends the input (C19/C18)");
  }
#elif VF_OP == 2
  {
    SRC_DATA io; float * ob = make_buf(g_otype, VF_CH, 1);
    memset(&io, 0, sizeof(io));
    VF_ASSERT(src_process(0, &io) != 0, "NULL converter: error code, no crash (C19)");
    VF_ASSERT(src_process(p, 0) != 0, "NULL data block: error code, no crash (C19)");
    VF_ASSERT(src_callback_read(0, 1., 1, ob) == -1, "NULL converter in src_callback_read: -1 (C19)");
    VF_ASSERT(src_reset(0) != 0, "src_reset(NULL): error code (C19)");
    VF_ASSERT(src_set_ratio(0, 1.) != 0, "src_set_ratio(NULL): error code (C19)");
    VF_ASSERT(ae_total_in_calls + ae_total_out_calls + ae_total_proc_calls == 0, "no engine activity for NULL arguments");
    { SRC_DATA s; memset(&s, 0, sizeof(s)); s.input_frames = -1; VF_ASSERT(src_simple(&s, 0, 1) != 0, "src_simple: negative frame count refused (C19)");
      VF_ASSERT(src_simple(0, 0, 1) != 0 && src_simple(&io, 0, 0) != 0, "src_simple: NULL data / no channels refused (C19)"); }
  }
#elif VF_OP == 10 || VF_OP == 11
  {
    IN_ARR(float, in_x, 2);
    double d, lo, hi, cl; int k;
    vf_x87_ie = 0;
#if VF_OP == 10
    short out[2] = {77, 77};
    src_float_to_short_array(in_x, out, 2);
    lo = -32768., hi = 32767.;
#else
    int out[2] = {77, 77};
    src_float_to_int_array(in_x, out, 2);
    lo = -2147483648., hi = 2147483647.;
#endif
    for (k = 0; k < 2; ++k) if (in_x[k] == in_x[k]) {
      d = (double)in_x[k] * (hi + 1);                 /* exact: power-of-two scaling of a float in double */
      cl = d > hi? hi : d < lo? lo : d;
      VF_ASSERT((double)out[k] - cl <= .5 && cl - (double)out[k] <= .5, "float -> integer helper: nearest integer, saturated at the type limits (C19)");
    }
    VF_ASSERT(vf_x87_ie == 0 || in_x[0] != in_x[0] || in_x[1] != in_x[1], "the pre-clamps keep the FPU conversion in range (no invalid operation) for every non-NaN input (C19)");
  }
#elif VF_OP == 12
  {
    IN_ARR(short, in_s, 2); float out[2]; int k;
    src_short_to_float_array(in_s, out, 2);
    for (k = 0; k < 2; ++k) VF_ASSERT((double)out[k] * 32768. == (double)in_s[k], "short -> float helper is exact, full scale = 1.0 (C19/C11)");
  }
#elif VF_OP == 13
  {
    IN_ARR(int, in_i, 2); float out[2]; int k;
    src_int_to_float_array(in_i, out, 2);
    for (k = 0; k < 2; ++k) VF_ASSERT(out[k] == (float)in_i[k] / 2147483648.f, "int -> float helper: correctly rounded value of i / 2^31 (C19/C11)");
  }
#endif
#if VF_OP < 10
  check_canaries();
#endif
  VF_WITNESS();
}
