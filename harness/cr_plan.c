/* L4: the callable pieces of the planner of cr.c (static functions reached by textual inclusion).
 * VF_OP 0  set_dft_length for every filter length and every documented log2_min/large_dft_size
 *       1  dft_stage_init (first channel: designs, places the coefficients, sets up the transforms; with the filter design
 *          and the FFT back end stubbed by contract) - the DFT-stage envelope ENV that dft_stage_fn relies on
 *       2  _soxr_init: the spec validation prefix - out-of-range quality specs are rejected before anything is built
 * Stubs: log() (only used as log(a)/log(b): returns a log2 bracket: floor(log2 x) <= r < floor(log2 x)+1, exact at powers of two),
 * lsx_design_lpf / lsx_fir_to_phase (any length of the residue class the real code forces, any peak position),
 * the rdft_cb table (setup functions check the documented pffft precondition N % 32 == 0, N >= 32 when the back end is SIMD). */
#include "vf.h"
#include <string.h>
#include <stdlib.h>
#include <math.h>
#ifndef VF_OP
#define VF_OP 0
#endif

#if !defined VF_NATIVE
/* log2 bracket (see above) */
double in_logfrac[4]; static unsigned vf_log_calls;
double log(double x)
{
  unsigned long long v; int e = 0; double f;
  VF_ASSERT(x >= 1 && x < 4294967296., "harness: log() argument in [1, 2^32)");
  v = (unsigned long long)x;
  while (v > 1) { v >>= 1; ++e; }
  f = in_logfrac[vf_log_calls++ & 3];
  VF_ASSUME(f >= 0 && f < 1);
  if (x == (double)(1ull << e)) f = 0;
  return (double)e + f;
}
#endif

/* design stubs */
int in_ntaps, in_post_len, in_phase_len;
static double vf_h[64];
#include "filter.h"
double * _soxr_design_lpf(double Fp, double Fs, double Fn, double att, int * num_taps, int k, double beta)
{
  int modulo = k < 0? -k : 1;
  (void)Fp; (void)Fs; (void)att; (void)beta;
  VF_ASSUME(in_ntaps >= 1 && in_ntaps <= 33 && (in_ntaps - 1) % modulo == 0);    /* real code: num_taps == 1 (mod -k) */
  *num_taps = in_ntaps;
  if (Fn < 0) return 0;
  { double * h = malloc(sizeof(vf_h)); VF_ASSUME(h != 0); memcpy(h, vf_h, sizeof(vf_h)); return h; }     /* freed by the caller */
}
void _soxr_fir_to_phase(double * * h, int * len, int * post_len, double phase)
{
  (void)h; (void)phase;
  VF_ASSUME(in_phase_len >= 1 && in_phase_len <= 33);
  *len = in_phase_len;
  VF_ASSUME(in_post_len >= 0 && in_post_len < in_phase_len);
  *post_len = in_post_len;
}
double _soxr_inv_f_resp(double drop, double a) { (void)drop; (void)a; return .5; }
double _soxr_f_resp(double t, double a) { (void)t; (void)a; return -1.; }
#if !defined VF_NATIVE
int _soxr_trace_level; void _soxr_trace(char const * fmt, ...) { (void)fmt; }
#endif

#include "cr.c"

/* ---- FFT back end by contract ---- */
#ifndef VF_RDFT_FLAGS
#define VF_RDFT_FLAGS (RDFT_IS_SIMD | RDFT_NEEDS_SCRATCH)     /* the pffft back ends; 0 for fft4g */
#endif
static int vf_setups, vf_setup_n[4];
static double vf_mem[3][1 << 13]; static unsigned vf_mem_k;
static void * cb_setup(int n)
{
  if (vf_setups < 4) vf_setup_n[vf_setups] = n;
  ++vf_setups;
#ifndef KF_C09_DFT_PORTION
  if (VF_RDFT_FLAGS & RDFT_IS_SIMD)
    VF_ASSERT(n >= 32 && n % 32 == 0, "pffft set-up precondition: transform size is a positive multiple of 32 (pffft.c:new_setup) (C09/C07)");
#else
  if (VF_RDFT_FLAGS & RDFT_IS_SIMD) VF_ASSUME(n >= 32 && n % 32 == 0);
#endif
  return vf_mem[0];
}
static void cb_delete_setup(void * s) { (void)s; }
static void cb_xform(int n, void * setup, void * data, void * scratch) { (void)n; (void)setup; (void)data; (void)scratch; }
static void cb_convolve(int n, void * s, void * a, void const * b) { (void)n; (void)s; (void)a; (void)b; }
static void cb_convolve_portion(int n, void * a, void const * b) { (void)n; (void)a; (void)b; }
static int cb_multiplier(void) { return 2; }
static void * cb_malloc(size_t n) { VF_ASSERT(n <= sizeof(vf_mem[0]), "harness bound: rdft_malloc size"); return vf_mem[1 + (vf_mem_k++ & 1)]; }
static void * cb_calloc(size_t a, size_t b) { VF_ASSERT(a * b <= sizeof(vf_mem[0]), "harness bound: rdft_calloc size"); return vf_mem[0]; }
static void cb_free(void * p) { (void)p; }
static int cb_flags(void) { return VF_RDFT_FLAGS; }
static fn_t vf_cb[] = { (fn_t)cb_setup, (fn_t)cb_setup, (fn_t)cb_delete_setup, (fn_t)cb_xform, (fn_t)cb_xform, (fn_t)cb_xform, (fn_t)cb_xform,
  (fn_t)cb_convolve, (fn_t)cb_convolve_portion, (fn_t)cb_multiplier, (fn_t)cb_xform, (fn_t)cb_malloc, (fn_t)cb_calloc, (fn_t)cb_free, (fn_t)cb_flags };

VF_MAIN
{
#if !defined VF_NATIVE
  IN_GARR(in_logfrac);
#endif
#if VF_OP == 0
  IN_INT(in_n); IN_INT(in_min); IN_INT(in_large);
  int r;
  VF_ASSUME(in_n >= 1 && in_n <= (1 << 20) && in_min >= 8 && in_min <= 15 && in_large >= 8 && in_large <= 20);   /* documented ranges */
  r = set_dft_length(in_n, in_min, in_large);
  VF_ASSERT(r > 0 && (r & (r - 1)) == 0, "DFT length is a power of two (C09)");
  VF_ASSERT(r >= in_n, "the DFT is at least as long as the filter: the overlap num_taps-1 fits and every block yields output (C09/C07/C08)");
  if (in_large >= in_min) VF_ASSERT(r >= (1 << in_min), "the DFT length honours log2_min_dft_size (C09)");
  VF_ASSERT(r <= (1 << 22), "the DFT length stays bounded (C09)");
#elif VF_OP == 1
  IN_INT(in_L); IN_INT(in_M); IN_DBL(in_phase); IN_INT(in_min); IN_INT(in_large); IN_DBL(in_Fn); IN_DBL(in_Fs);
  static stage_t st; static rate_shared_t sh; double mult = 1; dft_filter_t * f = &sh.dft_filter[0];
  int Lp;
  SET_INT(in_ntaps); SET_INT(in_post_len); SET_INT(in_phase_len);
  /* what the planner of _soxr_init can hand over: L in 1..256 (pre-stage: 1..4; post-stage: powers of two 4..256), M in 1..4 */
  VF_ASSUME(in_L >= 1 && in_L <= 256 && in_M >= 1 && in_M <= 4);
  VF_ASSUME(in_min >= 8 && in_min <= 12 && in_large >= 8 && in_large <= 12);       /* documented 8..15 / 8..20; bounded by the harness storage */
  VF_ASSUME(in_phase >= 0 && in_phase <= 100);
  VF_ASSUME(in_Fn > 0 && in_Fs > 0);
  st.shared = &sh;
  dft_stage_init(0, .5, in_Fs, in_Fn, 100., in_phase, &st, in_L, in_M, &mult, (unsigned)in_min, (unsigned)in_large, 0, vf_cb);
  Lp = lsx_is_power_of_2(in_L)? in_L : 1;
  VF_ASSERT(f->dft_length > 0 && (f->dft_length & (f->dft_length - 1)) == 0 && f->dft_length >= f->num_taps, "DFT length: power of two, not shorter than the filter (C09)");
  VF_ASSERT(f->num_taps >= 1 && f->post_peak >= 0 && f->post_peak < f->num_taps, "peak position inside the filter (C14)");
  if (in_phase == 50) VF_ASSERT(f->post_peak == f->num_taps / 2, "linear phase: the peak is the centre tap (C04/C14)");
  VF_ASSERT(st.preload * in_L + st.at.integer == f->post_peak && st.at.integer >= 0 && st.at.integer < in_L,
      "latency compensation: preload*L + phase == peak position, phase in [0, L) (C04/C03)");
  VF_ASSERT(st.L == in_L && st.block_len == f->dft_length - (f->num_taps - 1) && st.block_len >= 1, "block length = DFT length - overlap >= 1 (C08)");
  VF_ASSERT(st.input_size >= 1 && (long)st.input_size * in_L >= f->dft_length - st.at.integer && (long)(st.input_size - 1) * in_L < f->dft_length - st.at.integer,
      "a stage asks for exactly the input that fills one DFT block (C08/C05)");
  VF_ASSERT(mult == 1, "the gain is folded into this stage's coefficients and reset for the following stages (C12)");
  VF_ASSERT(f->dft_length % Lp == 0, "frequency-domain up-sampling: L divides the DFT length");
  VF_ASSERT(vf_setups >= 3, "forward / backward / coefficient set-ups are created");
#elif VF_OP == 2
  IN_DBL(in_prec); IN_DBL(in_phase); IN_DBL(in_pass); IN_DBL(in_stop); IN_ULONG(in_qflags); IN_DBL(in_ratio); IN_ULONG(in_rflags);
  soxr_quality_spec_t q; soxr_runtime_spec_t r; char const * e; static rate_shared_t sh; static cr_core_t core;
  memset(&q, 0, sizeof(q)); memset(&r, 0, sizeof(r));
  q.precision = in_prec; q.phase_response = in_phase; q.passband_end = in_pass; q.stopband_begin = in_stop; q.flags = in_qflags;
  r.log2_min_dft_size = 10; r.log2_large_dft_size = 17; r.coef_size_kbytes = 400; r.flags = in_rflags;
  VF_ASSUME(in_prec == in_prec && in_phase == in_phase && in_pass == in_pass && in_stop == in_stop && in_ratio == in_ratio);   /* no NaN */
  /* out of the documented ranges in at least one way: */
  VF_ASSUME((in_prec != 0 && (in_prec < 15 || in_prec > 33)) || in_phase < 0 || in_phase > 100 || in_ratio <= 0 ||
      in_stop - in_pass < .0019 || in_stop - in_pass > .5001 || in_pass < .499 || in_stop > 1.5001);
  /* a NULL rate object: the first thing _soxr_init does with an ACCEPTED spec is p->core = core - a NULL dereference that
   * cbmc's pointer check reports; for a rejected spec it must be unreachable */
  e = _soxr_init(0, &sh, in_ratio, &q, &r, 1., &core, 0);
  VF_ASSERT(e != 0, "an out-of-range quality spec / ratio is rejected with an error string (C09)");
#elif VF_OP == 3
  /* the halving loop at the head of the planning loop (cr.c: for (i = (int)(.5 * arbM), shr = 0; i >>= 1; ...)) for every finite
   * ratio >= 1: it must terminate (unwinding assertion of that loop only: the rest of the planning is cut by small bounds and is
   * not this obligation's subject) and its float->int conversion must be in range */
  IN_DBL(in_ratio);
  soxr_quality_spec_t q; soxr_runtime_spec_t r; static rate_shared_t sh; static cr_core_t core; static rate_t P;
  memset(&q, 0, sizeof(q)); memset(&r, 0, sizeof(r));
  q.precision = 20; q.phase_response = 50; q.passband_end = .913; q.stopband_begin = 1;
  r.log2_min_dft_size = 10; r.log2_large_dft_size = 17; r.coef_size_kbytes = 400;
  VF_ASSUME(in_ratio >= 1 && in_ratio <= 1e15);
  (void)_soxr_init(&P, &sh, in_ratio, &q, &r, 1., &core, 0);
#endif
  VF_WITNESS();
}
