/* L1: object life-cycle of soxr.c over the abstract engine: the REAL soxr_create, soxr_set_io_ratio, initialise,
 * soxr_clear, soxr_delete0/soxr_delete, soxr_set_num_channels, engine selection - every spec field symbolic.
 *
 * Allocation model: soxr.c's calloc/free go through vf_calloc/vf_free (macro redirection after <stdlib.h>):
 * constant-size zeroed chunks (symbolic-size allocation does not get through cbmc), a live-block ghost counter
 * (leak check), and - when VF_MAY_FAIL - an independent symbolic failure bit per allocation event (any subset).
 *
 * VF_MODE 0  C09: reject-or-valid for the full spec product; named out-of-range values are rejected
 *         1  C20: any subset of allocations fails: error reported, nothing leaked, delete is safe, no NULL use
 *         2  C10: soxr_clear == fresh create, field by field and in what the engines are created with
 *         3  C13: which engine is installed (precision / flags / SOXR_USE_SIMD* overrides / CPU detection) */
#include "vf.h"
#include <stdlib.h>
#include <string.h>
#include <math.h>

#ifndef VF_MODE
#define VF_MODE 0
#endif
#ifndef VF_CHUNK
#define VF_CHUNK 512
#endif
#define VF_MAXALLOC 24
unsigned in_fail[VF_MAXALLOC];
static unsigned vf_allocs, vf_live, vf_failed_allocs;
static void * vf_calloc(size_t a, size_t b);
static void vf_free(void * p) { if (p) { VF_ASSERT(vf_live > 0, "free of a block that is not live"); --vf_live; }
#ifndef VF_STATIC_POOL
  (free)(p);
#endif
}
#define calloc(a, b) vf_calloc(a, b)
#define free(p) vf_free(p)

/* ---- environment: SOXR_* overrides as short decimal strings (C13/C09), atoi model for them ---- */
static int vf_streq(char const * a, char const * b) { while (*a && *a == *b) ++a, ++b; return *a == *b; }
#if !defined VF_NATIVE
#define VF_OWN_GETENV
unsigned in_env_set[10]; int in_env_val[10];
static char vf_envbuf[10][4];
static char const * const vf_envnames[10] = {"SOXR_TRACE", "SOXR_USE_SIMD", "SOXR_USE_SIMD32", "SOXR_USE_SIMD64",
  "SOXR_MIN_DFT_SIZE", "SOXR_LARGE_DFT_SIZE", "SOXR_COEFS_SIZE", "SOXR_NUM_THREADS", "SOXR_COEF_INTERP", "SOXR_STRICT_BUF"};
char * getenv(char const * name)
{
  unsigned i;
  for (i = 0; i < 10; ++i) if (vf_streq(name, vf_envnames[i])) {
    if (!(in_env_set[i] & 1)) return 0;
    vf_envbuf[i][0] = 'v'; vf_envbuf[i][1] = (char)i; vf_envbuf[i][2] = 0;   /* token: atoi model below decodes it */
    return vf_envbuf[i];
  }
  return 0;
}
int atoi(char const * s) { return (s[0] == 'v' && (unsigned char)s[1] < 10)? in_env_val[(unsigned char)s[1]] : 0; }
#endif

/* soxr.c copies its control block with memcpy and wipes the object with memset: done on TYPED objects here (same
 * bytes), because cbmc turns byte-wise copies of function-pointer arrays into unresolved byte extractions */
static void * vf_memcpy(void * d, void const * s, size_t n);
static void * vf_memset(void * d, int c, size_t n);
#define memcpy(d, s, n) vf_memcpy(d, s, n)
#define memset(d, c, n) vf_memset(d, c, n)
#include "soxr.c"
#undef memcpy
#undef memset
static void * vf_memcpy(void * d, void const * s, size_t n)
{
  if (n == sizeof(control_block_t)) { unsigned i; for (i = 0; i < sizeof(control_block_t) / sizeof(fn_t); ++i) ((fn_t *)d)[i] = ((fn_t const *)s)[i]; return d; }
  return memcpy(d, s, n);
}
static void * vf_memset(void * d, int c, size_t n)
{
  if (n == sizeof(struct soxr) && c == 0) { static struct soxr const zero; *(struct soxr *)d = zero; return d; }
  return memset(d, c, n);
}
#include "abs_engine.h"

#ifndef VF_MAXCH
#define VF_MAXCH 2
#endif
#ifndef VF_KIND
#define VF_KIND 2
#endif
#ifndef VF_PREC
#define VF_PREC 20
#endif


/* typed allocation: cbmc gives a malloc'ed object the type of its sizeof expression; objects that are later used
 * as structs must be created with that type or every access becomes a byte-level extraction (measured: no verdict). */
static void * vf_calloc(size_t a, size_t b)
{
  unsigned k = vf_allocs++;
  size_t sz = a * b, i;
  void * r;
  VF_ASSERT(k < VF_MAXALLOC, "harness bound: allocation events");
#if VF_MODE == 1
  if (in_fail[k] & 1) { ++vf_failed_allocs; return 0; }
#endif
#ifdef VF_STATIC_POOL
  { /* static typed pools (no dynamic objects): fastest for cbmc; freed blocks are tracked by ghost flags */
    static struct soxr pool_soxr[3]; static ae_chan_t pool_chan[6]; static void * pool_ptrs[10][2]; static char pool_shared[4][32];
    static unsigned n_soxr, n_chan, n_ptrs, n_shared;
    static struct soxr const zs; static ae_chan_t const zc;
    if (a == sizeof(struct soxr)) { VF_ASSERT(b == 1, "harness: one object"); VF_ASSERT(n_soxr < 3, "harness bound: pool"); pool_soxr[n_soxr] = zs; r = &pool_soxr[n_soxr++]; }
    else if (a == sizeof(ae_chan_t)) { VF_ASSERT(b == 1, "harness: one object"); VF_ASSERT(n_chan < 6, "harness bound: pool"); pool_chan[n_chan] = zc; r = &pool_chan[n_chan++]; }
    else if (a == 32) { VF_ASSERT(b == 1, "harness: one object"); VF_ASSERT(n_shared < 4, "harness bound: pool"); for (i = 0; i < 32; ++i) pool_shared[n_shared][i] = 0; r = pool_shared[n_shared++]; }
    else { VF_ASSERT(a == sizeof(void *) && b <= 2 && n_ptrs < 10, "harness bound: pointer arrays of at most 2 entries");
      pool_ptrs[n_ptrs][0] = pool_ptrs[n_ptrs][1] = 0; r = pool_ptrs[n_ptrs++]; }
  }
#else
  if (a == sizeof(struct soxr)) {   /* dispatch on the (constant) element size: a symbolic product would alias all pools */
    static struct soxr const zero;
    struct soxr * x = malloc(sizeof(struct soxr)); VF_ASSUME(x != 0); *x = zero; r = x;
  } else if (a == sizeof(ae_chan_t)) {
    static ae_chan_t const zero;
    ae_chan_t * x = malloc(sizeof(ae_chan_t)); VF_ASSUME(x != 0); *x = zero; r = x;
  } else if (a == 32) {
    char * x = malloc(32); VF_ASSUME(x != 0); for (i = 0; i < 32; ++i) x[i] = 0; r = x;
  } else {
    void * * x;      /* exactly sized pointer arrays (0, 1 or 2 entries) */
    VF_ASSERT(a == sizeof(void *) && b <= 2, "harness bound: pointer arrays of at most 2 entries");
    if (b == 2) { x = malloc(sizeof(void *) * 2); VF_ASSUME(x != 0); x[0] = 0; x[1] = 0; }
    else { x = malloc(sizeof(void *)); VF_ASSUME(x != 0); x[0] = 0; }
    r = x;
  }
#endif
  ++vf_live;
  return r;
}

static int same_q(soxr_quality_spec_t const * a, soxr_quality_spec_t const * b)
{ return a->precision == b->precision && a->phase_response == b->phase_response && a->passband_end == b->passband_end &&
    a->stopband_begin == b->stopband_begin && a->e == b->e && a->flags == b->flags; }
static int same_r(soxr_runtime_spec_t const * a, soxr_runtime_spec_t const * b)
{ return a->log2_min_dft_size == b->log2_min_dft_size && a->log2_large_dft_size == b->log2_large_dft_size &&
    a->coef_size_kbytes == b->coef_size_kbytes && a->num_threads == b->num_threads && a->e == b->e && a->flags == b->flags; }

VF_MAIN
{
  IN_DBL(in_irate); IN_DBL(in_orate); IN_UINT(in_ch); IN_UINT(in_itype); IN_UINT(in_otype); IN_DBL(in_scale);
  IN_ULONG(in_ioflags); IN_DBL(in_prec); IN_DBL(in_phase); IN_DBL(in_pass); IN_DBL(in_stop); IN_ULONG(in_qflags);
  IN_UINT(in_qe); IN_UINT(in_mindft); IN_UINT(in_largedft); IN_UINT(in_coefk); IN_UINT(in_nthreads); IN_ULONG(in_rflags);
  IN_UINT(in_have_q); IN_UINT(in_have_io); IN_UINT(in_have_rt); IN_UINT(in_want_err);
  soxr_io_spec_t io; soxr_quality_spec_t q; soxr_runtime_spec_t rt;
  static char const unset[] = "unset";
  soxr_error_t err = unset; soxr_t p;
  unsigned c;

  AE_NONDET();
  IN_GARR(in_fail);
#ifdef VF_OWN_GETENV
  IN_GARR(in_env_set); IN_GARR(in_env_val);
#endif
  memset(&io, 0, sizeof(io)); memset(&q, 0, sizeof(q)); memset(&rt, 0, sizeof(rt));
  io.itype = (soxr_datatype_t)in_itype; io.otype = (soxr_datatype_t)in_otype; io.scale = in_scale; io.flags = in_ioflags;
  q.precision = in_prec; q.phase_response = in_phase; q.passband_end = in_pass; q.stopband_begin = in_stop;
  q.flags = in_qflags; q.e = (in_qe & 1)? "bad quality spec" : 0;
  rt.log2_min_dft_size = in_mindft; rt.log2_large_dft_size = in_largedft; rt.coef_size_kbytes = in_coefk;
  rt.num_threads = in_nthreads; rt.flags = in_rflags;
  VF_ASSUME(in_ch <= VF_MAXCH);
  VF_ASSUME(in_itype < 0x80000000u && in_otype < 0x80000000u);   /* enum conversion of larger values is implementation-defined (cbmc: signed, gcc: unsigned) */
#ifdef VF_CH        /* channel count constant per obligation: allocation sizes and channel loops become constant */
  in_ch = VF_CH;
#endif
#if VF_MODE != 3
  /* Engine selection is made CONSTANT per obligation (VF_KIND: 0 cr32, 2 cr32s, 1 cr64, 3 cr64s, 8 vr32) by fixing exactly
   * the inputs it depends on, so that cbmc resolves the control-block function pointers; all other fields stay
   * symbolic.  The selection logic itself is mode 3's subject (symbolic, no engine calls). */
  in_have_q = 1;
  in_qflags &= ~(unsigned long)(SOXR_VR | SOXR_DOUBLE_PRECISION);
#if VF_KIND == 8
  in_qflags |= SOXR_VR;
#elif VF_KIND & 1
  in_qflags |= SOXR_DOUBLE_PRECISION;
#else
  in_prec = VF_PREC;
#endif
  q.flags = in_qflags; q.precision = in_prec;
#ifdef VF_OWN_GETENV
  in_env_set[1] = 1; in_env_val[1] = (VF_KIND & 2)? 1 : 0;     /* SOXR_USE_SIMD=0/1 */
  in_env_set[0] = 0;                                             /* no SOXR_TRACE */
#endif
#endif
#ifdef VF_ORATE     /* stated bound: the output rate is this constant (symbolic double division does not get through the SAT back ends) */
  VF_ASSUME(in_orate == VF_ORATE);
#endif
  /* finite rates (the property's quantifier); NaN spec fields are outside the claim (see DESIGN.md) */
  VF_ASSUME(in_irate == 0 || (fabs(in_irate) >= 1e-6 && fabs(in_irate) <= 1e12));
  VF_ASSUME(in_orate == 0 || (fabs(in_orate) >= 1e-6 && fabs(in_orate) <= 1e12));
  VF_ASSUME(in_scale == in_scale && in_prec == in_prec && in_phase == in_phase && in_pass == in_pass && in_stop == in_stop);
#if VF_MODE != 1
  in_ae_create_err = -1;
#endif

#if VF_MODE == 0 || VF_MODE == 1
  p = soxr_create(in_irate, in_orate, in_ch, (in_want_err & 1)? &err : 0,
      (in_have_io & 1)? &io : 0, (in_have_q & 1)? &q : 0, (in_have_rt & 1)? &rt : 0);
  if (in_want_err & 1) {
    VF_ASSERT(err != unset, "soxr_create always writes *error");
    VF_ASSERT((p == 0) == (err != 0), "soxr_create: NULL handle iff an error string is reported (C09)");
  }
  if ((in_have_q & 1) && (in_qe & 1)) VF_ASSERT(p == 0, "a quality spec that carries an error is rejected (C09)");
  if ((in_have_io & 1) && ((in_itype | in_otype) >= 8)) VF_ASSERT(p == 0, "datatypes outside 0..7 are rejected (C09)");
  if ((in_irate == 0) != (in_orate == 0)) VF_ASSERT(p == 0, "exactly one zero rate is rejected (C09)");
  if (in_irate != 0 && in_orate != 0 && in_ch && in_irate / in_orate <= 0) VF_ASSERT(p == 0, "a non-positive rate ratio is rejected (C09)");
  if (!p) {
    VF_ASSERT(vf_live == 0, "failed soxr_create leaks nothing (C20)");
    VF_ASSERT(ae_n_live == 0, "failed soxr_create leaves no engine object open (C20)");
  } else {
    int initialised = p->resamplers != 0;
    VF_ASSERT(p->error == 0, "a created resampler has no pending error (C09)");
    VF_ASSERT(initialised == (in_ch != 0 && in_irate != 0), "engines exist iff channels and ratio were given");
    if (initialised) {
      VF_ASSERT(ae_n_live == (int)in_ch, "one live engine object per channel (C06)");
      for (c = 0; c < VF_MAXCH; ++c) if (c < in_ch) {
        ae_chan_t * e = p->resamplers[c];
        VF_ASSERT(e->created && e->shared == p->shared && e->io_ratio == in_irate / in_orate,
            "every channel is created with the shared block and the requested ratio (C06)");
        VF_ASSERT(e->scale == p->io_spec.scale && same_q(&e->q, &p->q_spec) && same_r(&e->r, &p->runtime_spec),
            "every channel is created with the same gain, quality and runtime spec: a channel equals its mono run (C06/C12)");
        VF_ASSERT(e->r.log2_min_dft_size >= 8 || !(in_have_rt & 1) || e->r.log2_min_dft_size == in_mindft,
            "runtime spec handed to the engine is the caller's or an in-range override (C09)");
      }
      if (VF_MAXCH > 1 && in_ch == 2) VF_ASSERT(p->resamplers[0] != p->resamplers[1], "channels have their own engine objects (C06)");
    }
    {
      IN_UINT(in_do_clear); IN_DBL(in_r2);
      if (in_do_clear & 1) {     /* clear re-allocates: failures may strike here too */
        unsigned f0 = vf_failed_allocs + (unsigned)ae_n_create_failed;
        soxr_error_t e2 = soxr_clear(p);
        if (vf_failed_allocs + (unsigned)ae_n_create_failed != f0)
          VF_ASSERT(e2 != 0 && p->error == e2, "a failure inside soxr_clear is reported AND stays recorded in the object: later calls return it instead of running on a torn-down object (C20/C09)");
        if (p->error) VF_ASSERT(e2 == p->error, "soxr_clear returns the error it leaves pending (C20)");
        if (vf_failed_allocs == 0 && in_ae_create_err < 0 && p->io_ratio > 0) VF_ASSERT(e2 == 0, "soxr_clear of a configured resampler succeeds when nothing fails");
        if (e2) VF_ASSERT(p->resamplers == 0 && ae_n_live == 0, "a failed clear leaves no half-initialised engine (C20)");
        if (e2) VF_ASSERT(soxr_delay(p) == 0, "delay of a failed resampler is 0 (C15)");
      }
      if (in_do_clear & 2) {
        unsigned f1 = vf_failed_allocs + (unsigned)ae_n_create_failed;
        soxr_error_t e3 = soxr_set_io_ratio(p, in_r2, 0);
        if (vf_failed_allocs + (unsigned)ae_n_create_failed != f1)
          VF_ASSERT(e3 != 0 && p->error == e3 && p->resamplers == 0, "a failure inside soxr_set_io_ratio (first initialisation) is reported and stays recorded (C20/C09)");
        if (p->error) VF_ASSERT(e3 == p->error, "set_io_ratio returns the pending error (C09)");
      }
    }
    soxr_delete(p);
    VF_ASSERT(vf_live == 0, "soxr_delete frees everything, whatever failed before (C20)");
    VF_ASSERT(ae_n_live == 0, "soxr_delete closes every engine object exactly once (C20)");
  }
#elif VF_MODE == 2
  {
    IN_UINT(in_hist_flushing); IN_UINT(in_hist_err); IN_ULONG(in_hist_clips); IN_DBL(in_r2); IN_UINT(in_slew);
    IN_UINT(in_hist_setratio); IN_UINT(in_hist_fn); IN_UINT(in_hist_maxilen);
    static struct soxr fresh; static ae_chan_t fresh_ch[VF_MAXCH]; soxr_t f = &fresh;
    soxr_error_t ec;
    VF_ASSUME(in_ch >= 1 && in_irate > 0 && in_orate > 0 && in_irate / in_orate >= 1. / 4096 && in_irate / in_orate <= 4096.);
    VF_ASSUME(in_r2 >= 1. / 4096 && in_r2 <= 4096.);
    p = soxr_create(in_irate, in_orate, in_ch, &err, (in_have_io & 1)? &io : 0, (in_have_q & 1)? &q : 0, (in_have_rt & 1)? &rt : 0);
    VF_ASSUME(p != 0);
    /* the oracle: what a fresh create of this configuration looks like = this very object right now */
    fresh = *p;
    for (c = 0; c < VF_MAXCH; ++c) if (c < in_ch) fresh_ch[c] = *(ae_chan_t *)p->resamplers[c];
    /* any history: the history-dependent scalars take any value; the one call that may touch configuration-like
     * fields (soxr_set_io_ratio on an initialised object) and soxr_set_input_fn are made for real */
    if (in_hist_setratio & 1) soxr_set_io_ratio(p, in_r2, in_slew);
    if (in_hist_fn & 1) soxr_set_input_fn(p, (soxr_input_fn_t)vf_streq /* any non-null */, &io, in_hist_maxilen);
    p->flushing = (int)(in_hist_flushing & 1);
    p->clips = in_hist_clips;
    if (in_hist_err & 1) p->error = "some earlier error";
    for (c = 0; c < VF_MAXCH; ++c) if (c < in_ch) {      /* the engines have consumed / produced / been flushed */
      ae_chan_t * e = p->resamplers[c]; e->in_total = in_hist_clips; e->out_total = in_hist_clips / 2; e->flushing = (int)(in_hist_flushing & 1);
    }
    ec = soxr_clear(p);
    VF_ASSERT(p->error == 0 && ec == 0, "soxr_clear resets the error (C10)");
    VF_ASSERT(p->flushing == 0 && p->clips == 0, "soxr_clear resets end-of-input and the clip counter (C10)");
    VF_ASSERT(p->num_channels == f->num_channels && same_q(&p->q_spec, &f->q_spec) && same_r(&p->runtime_spec, &f->runtime_spec),
        "soxr_clear keeps channel count, quality and runtime spec as a fresh create has them (C10)");
    VF_ASSERT(p->io_spec.itype == f->io_spec.itype && p->io_spec.otype == f->io_spec.otype && p->io_spec.flags == f->io_spec.flags &&
        p->io_spec.scale == f->io_spec.scale, "soxr_clear keeps the I/O spec incl. the once-applied full-scale ratio (C10/C12)");
    VF_ASSERT(memcmp(p->control_block, f->control_block, sizeof(p->control_block)) == 0 && p->interleave == f->interleave &&
        p->deinterleave == f->deinterleave, "soxr_clear keeps the engine and the conversion functions (C10/C13)");
    if (p->q_spec.flags & RESET_ON_CLEAR) {
      VF_ASSERT(p->io_ratio == f->io_ratio, "a cleared resampler runs at the configured ratio, as a fresh one (C10)");
      VF_ASSERT(p->resamplers != 0 && p->channel_ptrs != 0 && p->shared != 0, "cleared resampler is initialised like a fresh one (C10)");
      for (c = 0; c < VF_MAXCH; ++c) if (c < in_ch && p->resamplers) {
        ae_chan_t * a = p->resamplers[c], * b = &fresh_ch[c];
        VF_ASSERT(a->created && !a->closed, "soxr_clear re-creates every channel engine (C10)");
        VF_ASSERT(a->io_ratio == b->io_ratio && a->scale == b->scale && same_q(&a->q, &b->q) && same_r(&a->r, &b->r) && a->kind == b->kind,
            "engines re-created by soxr_clear get the arguments a fresh create passes (C10)");
        VF_ASSERT(a->in_total == 0 && a->out_total == 0 && !a->flushing, "engines re-created by soxr_clear carry no history (C10)");
      }
    } else
      VF_ASSERT(p->resamplers == 0 && p->io_ratio == 0, "without RESET_ON_CLEAR the cleared object waits for soxr_set_io_ratio (LSR recipes)");
    if (in_hist_fn & 1) {
      VF_ASSERT(p->input_fn != 0 && p->input_fn_state == (void *)&io, "soxr_clear keeps the registered input function (same configuration)");
      VF_ASSERT(p->max_ilen == (in_hist_maxilen? in_hist_maxilen : (size_t)-1), "soxr_clear keeps max_ilen along with the input function (C10/C18)");
    }
    soxr_delete(p);
    VF_ASSERT(vf_live == 0 && ae_n_live == 0, "nothing of the old or the new engines is left behind (C10/C20)");
  }
#elif VF_MODE == 4
  {
    /* C19: src_reset (== soxr_clear) on a converter made by src_new (LSR recipe SOXR_LSR0Q + id, rates 0/0, ratio supplied by the first
     * src_process) "makes the converter behave like a new one": the next src_process may bring ANY ratio, as for a new converter.
     * The RESET_ON_CLEAR bit comes from the REAL soxr_quality_spec for that recipe; the other spec fields stay symbolic. */
#ifndef VF_LSRID
#define VF_LSRID 3
#endif
    soxr_quality_spec_t lq = soxr_quality_spec(SOXR_LSR0Q + VF_LSRID, 0);
    soxr_error_t e1, ec, e2;
    VF_ASSUME(in_ch >= 1);
    q.flags = (q.flags & ~(unsigned long)RESET_ON_CLEAR) | (lq.flags & RESET_ON_CLEAR);
    p = soxr_create(0, 0, in_ch, &err, (in_have_io & 1)? &io : 0, &q, (in_have_rt & 1)? &rt : 0);
    VF_ASSUME(p != 0);
    e1 = soxr_set_io_ratio(p, .5, 0);           /* first stream: src_process(src_ratio 2.0) */
    VF_ASSUME(e1 == 0);
    ec = soxr_clear(p);                         /* src_reset */
    VF_ASSERT(ec == 0 && p->error == 0, "src_reset succeeds and leaves no error (C19/C10)");
    e2 = soxr_set_io_ratio(p, 2., 0);           /* second stream: src_process(src_ratio 0.5) */
    VF_ASSERT(e2 == 0 && p->error == 0, "after src_reset the converter takes the ratio of the next block, as a new converter does (C19)");
    VF_ASSERT(p->resamplers != 0 && p->io_ratio == 2., "after src_reset + a new ratio the converter is initialised at that ratio (C19)");
    for (c = 0; c < VF_MAXCH; ++c) if (c < in_ch && p->resamplers) {
      ae_chan_t * a = p->resamplers[c];
      VF_ASSERT(a->created && !a->closed && a->io_ratio == 2., "every channel engine runs at the new ratio (C19)");
    }
    soxr_delete(p);
    VF_ASSERT(vf_live == 0 && ae_n_live == 0, "nothing is left behind (C20)");
  }
#elif VF_MODE == 3
  {
    /* rates 0/0: soxr_create selects the engine but does not create it (no call through the control block) */
    int want64, want_vr, is32, is32s, is64, is64s, isvr;
    p = soxr_create(0, 0, in_ch, &err, (in_have_io & 1)? &io : 0, (in_have_q & 1)? &q : 0, (in_have_rt & 1)? &rt : 0);
    VF_ASSUME(p != 0);
    is32  = !memcmp(p->control_block, _soxr_rate32_cb , sizeof(p->control_block));
    is32s = !memcmp(p->control_block, _soxr_rate32s_cb, sizeof(p->control_block));
    is64  = !memcmp(p->control_block, _soxr_rate64_cb , sizeof(p->control_block));
    is64s = !memcmp(p->control_block, _soxr_rate64s_cb, sizeof(p->control_block));
    isvr  = !memcmp(p->control_block, _soxr_vr32_cb   , sizeof(p->control_block));
    VF_ASSERT(is32 + is32s + is64 + is64s + isvr == 1, "exactly one engine's control block is installed (C13)");
    want_vr = (in_have_q & 1) && (in_qflags & SOXR_VR);
    want64 = (in_have_q & 1) && !want_vr && (in_prec > 20 || (in_qflags & SOXR_DOUBLE_PRECISION));
    if (want_vr) VF_ASSERT(isvr, "SOXR_VR selects the variable-rate engine (C13)");
    else if (want64) VF_ASSERT(is64 || is64s, "precision > 20 or SOXR_DOUBLE_PRECISION selects a double-precision engine (C13)");
    else VF_ASSERT(is32 || is32s, "otherwise a single-precision engine is used (C13)");
    VF_ASSERT((p->interleave == (interleave_t)_soxr_interleave) == (is64 || is64s) &&
        (p->deinterleave == (deinterleave_t)_soxr_deinterleave) == (is64 || is64s) &&
        (p->interleave == (interleave_t)_soxr_interleave_f) == !(is64 || is64s) &&
        (p->deinterleave == (deinterleave_t)_soxr_deinterleave_f) == !(is64 || is64s),
        "the (de)interleavers match the engine's sample type (C13/C11)");
#ifdef VF_OWN_GETENV
    if (!want_vr && !want64) {
      if (in_env_set[1] & 1) VF_ASSERT(is32s == (in_env_val[1] != 0), "SOXR_USE_SIMD overrides CPU detection (C13)");
      else if (in_env_set[2] & 1) VF_ASSERT(is32s == (in_env_val[2] != 0), "SOXR_USE_SIMD32 overrides CPU detection (C13)");
    }
    if (want64) {
      if (in_env_set[1] & 1) VF_ASSERT(is64s == (in_env_val[1] != 0), "SOXR_USE_SIMD overrides CPU detection (C13)");
      else if (in_env_set[3] & 1) VF_ASSERT(is64s == (in_env_val[3] != 0), "SOXR_USE_SIMD64 overrides CPU detection (C13)");
    }
    if ((in_env_set[4] & 1) && in_env_val[4] >= 8 && in_env_val[4] <= 15)
      VF_ASSERT(p->runtime_spec.log2_min_dft_size == (unsigned)in_env_val[4], "SOXR_MIN_DFT_SIZE in 8..15 is applied (C09)");
    if ((in_env_set[4] & 1) && (in_env_val[4] < 8 || in_env_val[4] > 15) && (in_have_rt & 1))
      VF_ASSERT(p->runtime_spec.log2_min_dft_size == in_mindft, "SOXR_MIN_DFT_SIZE outside 8..15 is ignored (C09)");
    if ((in_env_set[5] & 1) && in_env_val[5] >= 8 && in_env_val[5] <= 20)
      VF_ASSERT(p->runtime_spec.log2_large_dft_size == (unsigned)in_env_val[5], "SOXR_LARGE_DFT_SIZE in 8..20 is applied (C09)");
    if ((in_env_set[5] & 1) && (in_env_val[5] < 8 || in_env_val[5] > 20) && (in_have_rt & 1))
      VF_ASSERT(p->runtime_spec.log2_large_dft_size == in_largedft, "SOXR_LARGE_DFT_SIZE outside 8..20 is ignored (C09)");
    if ((in_env_set[6] & 1) && (in_env_val[6] < 100 || in_env_val[6] > 800) && (in_have_rt & 1))
      VF_ASSERT(p->runtime_spec.coef_size_kbytes == in_coefk, "SOXR_COEFS_SIZE outside 100..800 is ignored (C09)");
#endif
    VF_ASSERT(p->io_spec.scale == ((in_have_io & 1)? in_scale : 1) *
        (((p->io_spec.otype & 3) == 2? 2147483648. : (p->io_spec.otype & 3) == 3? 32768. : 1) /
         ((p->io_spec.itype & 3) == 2? 2147483648. : (p->io_spec.itype & 3) == 3? 32768. : 1)),
        "gain handed to the engine = user scale x ratio of datatype full scales (C11/C12)");
    soxr_delete(p);
  }
#endif
  VF_WITNESS();
}
