/* C13/C01: the interpolated poly-phase kernels vpoly1/2/3 of the portable engines (cr32.c / cr64.c via cr-core.c + poly-fir.h):
 * which table entry multiplies which power of the interpolation fraction x, for every tap.  One-hot input window (tap j carries 1.0,
 * all others +0.0), index-revealing coefficient table vf_coefs[i] == i, clock fractions whose phase and x are short dyadic numbers:
 * every partial result is exactly representable, so the kernel's output must EQUAL
 *     a_j + x*(b_j + x*(c_j + x*d_j)),   a,b,c,d = table entries 0..K of (phase, tap j) in the layout the table WRITER uses
 * (the coef() macro of cr.h shared with prepare_poly_fir_coefs) - in any evaluation order.  A kernel that reads the wrong entry for one
 * power of x (two near-identical #defines) differs.  Concrete probes: decided by symbolic execution (constant propagation), no
 * quantification; labelled so in the evidence. */
#include "vf.h"
#include <string.h>
#include <stdlib.h>
#include <math.h>
#ifndef VF_ENGINE_C
#define VF_ENGINE_C "cr64.c"
#endif
#include VF_ENGINE_C
#ifndef VF_K
#define VF_K 3
#endif
#ifndef VF_N
#define VF_N 10
#endif
#ifndef VF_PB
#define VF_PB 6
#endif
#if VF_K == 1
#define KGEN vpoly1
#elif VF_K == 2
#define KGEN vpoly2
#else
#define KGEN vpoly3
#endif
#define COEF_CAP 12000
#include "vf_coef_table.h"     /* generated: vf_coefs[i] == i */
static rate_shared_t vf_shared;
static sample_t inA[64], outA[8];

VF_MAIN
{
  static unsigned const probe_phase[] = {0, 1, 37, (1u << VF_PB) - 1}, probe_x8[] = {0, 1, 5, 7};
  int pi, j, k;
  VF_ASSERT((VF_N * (VF_K + 1)) << VF_PB <= COEF_CAP, "harness bound: coefficient table");
  for (pi = 0; pi < 4; ++pi) for (j = 0; j < VF_N; ++j) {
    stage_t A; fifo_t oa; unsigned phase = probe_phase[pi] & ((1u << VF_PB) - 1); sample_t x = (sample_t)probe_x8[pi] / 8, want, t[4] = {0, 0, 0, 0};
    memset(&A, 0, sizeof(A)); memset(&oa, 0, sizeof(oa)); memset(inA, 0, sizeof(inA));
    inA[j] = 1;
    A.fifo.data = (char *)inA; A.fifo.allocation = sizeof(inA); A.fifo.item_size = sizeof(sample_t); A.fifo.end = (VF_N + 1) * sizeof(sample_t);
    oa.data = (char *)outA; oa.allocation = sizeof(outA); oa.item_size = sizeof(sample_t);
    A.shared = &vf_shared; vf_shared.poly_fir_coefs = vf_coefs;
    A.pre = 0; A.pre_post = VF_N - 1; A.input_size = 2; A.n = VF_N; A.L = 1; A.out_in_ratio = 2.000001; A.phase_bits = VF_PB;
    A.at.whole = ((int64_t)phase << (32 - VF_PB)) | ((int64_t)probe_x8[pi] << (32 - VF_PB - 3)); A.step.whole = 0x140000000ll;
    KGEN(&A, &oa);
    VF_ASSERT(fifo_occupancy(&oa) >= 1, "the kernel produces a sample");
    for (k = 0; k <= VF_K; ++k) t[k] = coef(vf_coefs, VF_K, VF_N, phase, k, j);
    want = t[0] + x * (t[1] + x * (t[2] + x * t[3]));
    VF_ASSERT(outA[0] == want, "interpolated poly-phase kernel: tap j contributes a + b x + c x^2 + d x^3 with a..d the table entries the writer stores for (phase, tap, power) (C13: portable and SIMD engines read the same polynomial; C01)");
  }
  VF_WITNESS();
}
