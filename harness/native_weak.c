/* native replay builds of the kernel harnesses include one engine TU (cr32.c / cr64.c / ...) whose exported control block names the
 * driver functions of cr.c, which are not part of those harnesses: weak definitions satisfy the linker (never called). */
#define W(n) __attribute__((weak)) void n(void) {}
W(_soxr_init) W(_soxr_input) W(_soxr_process) W(_soxr_output) W(_soxr_flush) W(_soxr_close) W(_soxr_delay) W(_soxr_sizes)
__attribute__((weak)) int _soxr_trace_level;
__attribute__((weak)) void _soxr_trace(char const * fmt, ...) { (void)fmt; }
typedef void (* vf_fn_t)(void);
__attribute__((weak)) vf_fn_t _soxr_rdft32_cb[16], _soxr_rdft64_cb[16], _soxr_rdft32s_cb[16], _soxr_rdft64s_cb[16];
